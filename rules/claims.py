"""What MANIFEST.json claims per property (text, trusted base, technique)."""

NOT_APPLICABLE = {
}

CLAIMS = {
    'C17': {
        'text': 'The geometric clauses of C17 (a computed shift keeps the accumulated offset inside the limit rectangle; a "resolved" glyph\'s '
                'octabox does not overlap its neighbours\') are single-precision arithmetic over run-time boxes and are NOT decided.  Decided, '
                'narrowly, is the clause that is in the shape of the code because the code only COMPARES the quantities involved: "the '
                'cost-ordered set of free intervals it searches always remains sorted, disjoint, inside its bounds, and never offers a position '
                'that was excluded".  ZONESET: Zones::remove and Zones::insert (with outcode, split_at, left_trim, operator+=, separated, min/max '
                'inlined from their own CFGs) are abstractly interpreted over every order type of their arguments against every sorted, disjoint, '
                'in-bounds list of up to 3 (thorough: 4) intervals, with and without empty intervals -- about 88 000 order types each; on every '
                'abstract path the run terminates, no iterator is dereferenced / inserted at / erased at outside the vector or after an insertion '
                'that may have moved its storage, the resulting list is again sorted, disjoint and inside [_pos,_posm] (the invariant is inductive), '
                'no interval meets the removed open range, and insert makes no new position available.  The interpreter enforces that interval end '
                'points are only compared, min/max-ed, copied, or subtracted and compared with 0 -- the discipline that makes one representative per '
                'order type exhaustive; arithmetic on them is analysis-broken, not guessed.  ZONEWRITERS: end points, bounds and the vector are '
                'written only by the interpreted functions and initialise.  OFFERED: Exclusion::track_cost (with test_position, cost) over every order '
                'type of (x, xm, origin), every weight sign and every outcome of every cost comparison updates the best position only together '
                'with a lower cost and only to a position inside [x,xm]; Zones::closest with find_exclusion_under over every list and origin '
                'placement dereferences nothing outside the list and, unless it reports the -1 "nothing found" cost, returns a position inside an '
                'interval of the list.  RESOLVED: ShiftCollider::resolve starts from "collision remains" and clears it / takes a position only under '
                'bestCost >= 0 for the cost Zones::closest just produced.  Bounded exhaustive (list length), not an unbounded proof.',
        'note': 'Trusted: clang 14 CFG, tools/grfacts, rules/ordint.py (the abstract interpreter; graphite2::Vector is modelled natively as a list with '
                'index iterators and a storage generation), rules/c17.py.  Assumes finite non-NaN floats and a well-formed [_pos,_posm] (C17\'s own '
                'precondition).  An expression kind the interpreter does not model is exit 2.  Of the limit-rectangle arithmetic of initSlot only the pairing of sides per diagonal axis is decided (linear forms, round 7); the '
                'octabox geometry of mergeSlot is not decided (seeded change C17-12 is the recorded miss; C17-3 is decided by the argument rule LIMITARGS).',
        'technique': 'abstract interpretation of the exported CFGs over the order-type domain (finite set of weak orderings of interval end points, bounds and arguments; bounded list length) + who-may-write + dominance rule',
        'ref': 'DESIGN.md section 6, C17 and section 13.7',
    },
    'C20': {
        'text': 'Decides the byte-level contract of gr_tag_to_str / gr_str_to_tag completely (both are loop-free: every CFG path is '
                'enumerated): exact set of buffer offsets stored and the tag byte each receives; every str[j] read only under a '
                'proved lower bound strlen >= j derived from the switch selector; zero- vs sign-extension of each byte from the '
                'type-checked cast chain; bytes accumulated per length.  The tag-padding clause is decided as a taint/sibling rule: '
                'both implementations of the space->zero normalisation implement the same four cases, and every tag-taking entry '
                'normalises before any other use.  Holds for all strings/tags because no run-time value enters the argument.  A string handed to a fixed-width reader (be::peek/read, memcpy of constant length) is decided against the proved strlen bound; a buffer handed to a C string function is a violation (tags may contain zero bytes); normalisers written as loops over constants are unrolled by a bounded abstract execution. Round 4: every return of gr_str_to_tag hands back the accumulated tag variable itself (not a value a function made of it).',
        'note': 'Trusted: clang 14 parser/CFG/constant folder, tools/grfacts, rules/c20.py, rules/tagnorm.py; the rule knows the '
                'switch-on-length form and constant-offset stores, any other shape is exit 2 (analysis broken), never a pass.',
        'technique': 'CFG path enumeration + constant-offset pointer tracking + length lattice on switch edges + cast-chain typing (custom clang plugin facts)',
    },
    'C12': {
        'text': 'Decides the contract as a path property of the one loop that consumes text (all three encodings are separate '
                'template instantiations, each analysed): the decode of a character is followed by a NUL test whose zero edge '
                'leaves the loop and which dominates the iterator advance and appendSlot; exactly one decode per iteration; the '
                'consumed-character counter is returned and stored into both segment counts on every path.  The number of code '
                'units a single decode may look ahead is C11\'s clause (continuation-guarded look-ahead), not this one.  TEXTFLOW: the caller\'s text pointer is only handed on (gr_make_seg -> makeAndInitialize -> Segment::read_text -> the decoder\'s iterator); nothing else reads the text.',
        'note': 'Trusted: clang 14 CFG, tools/grfacts, rules/c12.py.  Unknown loop shapes are exit 2.  Byte-level look-ahead inside '
                'one UTF-8 decode is covered by C11 CONTGUARD.',
        'technique': 'CFG dominance / reachability path rule over template instantiations + def-use of the consumed count',
    },
    'C07': {
        'text': 'Decides, for all operand values, that the handler bound at opcode_table[n] for each in-scope opcode (0x00-0x18, '
                '0x30-0x32, 0x3E-0x41) has exactly the effect the opcode spec gives it: the AST of each handler is normalised into '
                'net stack movement + a bit-vector expression per written cell (explicit widths, explicitly signed operators, '
                'sign/zero extension of operand bytes) and compared structurally with a spec table keyed by opcode NUMBER; plus '
                'three-way agreement number/enum/table-name/handler, decoder stack model vs handler needs, operand-size table vs '
                'bytes claimed, stack excursion within the guard cells, division and signed-overflow guards, and construct-by-'
                'construct agreement of the direct- and call-threaded drivers (every handler region, register initialisation by '
                'field name, register types, ENDOP test, epilogues).  NOT decided: equality of returned values on concrete '
                'programs and identical shaping output of the two builds (runtime) -- the structural agreement is their necessary condition.',
        'note': 'Trusted: clang 14 front end and constant folder, tools/grfacts, rules/vmsym.py (normaliser), rules/opspec.py (spec written '
                'from doc/OpCodes.adoc; rows 3E/3F follow the on-disk numbering, the document has them swapped).  A handler body '
                'outside the normaliser\'s statement forms is exit 2.',
        'technique': 'AST/CFG normal-form comparison against a spec table (custom clang plugin facts) + sibling cross-check of the two VM drivers',
    },
    'C02': {
        'text': 'Decides necessary conditions of memory safety and bounded work for every accepted font and text, as path / dominance / '
                'who-may-call / constant-coherence rules: every opcode handler touches stack cells only within the guard cells and '
                'leaves through ENDOP/EXIT with an unsigned range test; the loader\'s stack model covers what each in-scope handler pops; '
                'operand bytes claimed equal the table; operand-derived slot references go through the two-sided slotat() window and are '
                'null-tested before use; user-attribute indexing is guarded; slots are allocated only at the tabled, budgeted sites '
                '(decMax, growth refusal, post-pass size test, extendLength accounting); limit constants equal the extents they index; '
                'recursion depth cut-offs dominate the recursive calls; the per-pass loop counter is consulted on the advance path and '
                'forced >= 1.  NOT decided: float-derived indexing in the colliders, the work bound as a number, leak-freedom.  Also decided: the number of SlotMap::pushSlot calls on any path through Pass::runFSM, computed from its constant-initialised counter by a bounded abstract execution, fits the slot map; the attach.to slot-map index in Slot::setAttr is unsigned (or bounded below) and below map.size(). Round 3: MAPWINDOW (a pointer formed as slotMap().begin() + signed offset is dominated by a test that this very difference is >= 0, compared as linear forms so that the arrangement of terms or a hoisted local does not matter; a comparison made after a conversion to unsigned does not count). Round 4: ADVIDX (every Font::advance(g) call is dominated by g < numGlyphs -- directly or through a non-null GlyphCache::glyphSafe(g) result -- because the hinted-advance cache has one cell per glyph); the free-interval vector of the collision fixer is never accessed through an iterator that an insertion may have invalidated (C17 ZONESET).',
        'note': 'Trusted: clang 14 CFG/constant folder, tools/grfacts, rules/vmsym.py, rules/dom.py, and the hand-confirmed tables in '
                'rules/c02.py (allowed newSlot/extendLength callers with reasons).  Allocation failure is outside the quantifier.',
        'technique': 'CFG dominance (edge-cut) + path rules + who-may-call over resolved callees + symbolic stack-offset analysis of opcode handlers',
    },
    'C08': {
        'text': 'Decides that no instruction reachable from any shaping / query / label / justification / line-break / feature-value API '
                'entry writes memory that outlives the call and is visible to a later call, except the three documented lazy caches, '
                'whose stores are shown to be dominated by their empty-slot guard: every store / memcpy / memset / atomic of the 700+ '
                'reachable functions is classified by the owner of the memory written (whole-library typed-pointer LLVM IR, pointer chains '
                'followed through GEPs, loads, phis, calls, with interprocedural binding of parameters), and the write set on face/font '
                'owned memory and on globals must be empty; writes through API parameters must be to documented out-parameters.  Side '
                'rules: no mutable global or guarded static reachable, SHARED classes hold no pointer to per-call objects, features are '
                'copied by value, const-cast inventory.  Because a history can influence a later call only through such memory, this '
                'covers all API interleavings.  Equality of two result dumps is NOT decided (runtime values).  LAZYFILL: each lazily filled cell receives only its loader\'s result, and the filling call returns the cell it filled (not a differently converted or substitute value). Round 3: a lazily filled accessor does not return a local that was set from the cell before the fill ran (stale-local return). Round 4: every cell of Font::m_advances starts as the sentinel Font::advance tests (Font::Font interpreted for faces of 0..5 glyphs).',
        'note': 'Trusted: clang 14 code generator (-O0 + sroa/mem2reg) and typed pointers, tools/grir, rules/eff.py ownership lattice, the '
                'SHARED / PER-CALL class partition (total: an unclassified struct is exit 2), the three-row lazy-cache table with reasons, '
                'the out-parameter table.  The application must not modify the table bytes it lent to the face.',
        'technique': 'interprocedural write-effect / ownership analysis over linked LLVM IR (custom LLVM tool) joined with AST dominance facts',
    },
    'C09': {
        'text': 'Decides race freedom for every thread schedule as an effect property: the instructions reachable from the shaping / query '
                'API that write face- or font-owned memory (whole-library LLVM IR ownership analysis, as C08) are exactly the three tabled '
                'lazy-cache fills; CFG path rules then show each fill is dead under the documented preconditions -- the glyph loader is '
                'deleted and nulled on every non-allocation-failure path of the preload branch, the name table is looked up at load and '
                'the lookup falsifies its own guard whether or not a table exists, every Font::advance call is dominated by isHinted() '
                'and m_hinted requires a callback -- and that the table / advance callbacks are unreachable from shaping and called only '
                'from their tabled sites.  With an empty shared write set no schedule can race.  That each thread obtains the '
                'single-threaded result is not separately decided (it follows from C08\'s clause).  The options word the face is built with comes from the faceOptions parameter of every face-construction entry point (and from no other parameter), through any forwarding helpers.',
        'note': 'Trusted: as C08, plus rules/c09.py path rules and rules/dom.py.  Assumes callers do not share a segment or feature-value '
                'object between threads while mutating it, and that logging is off (documented exclusions).',
        'technique': 'interprocedural write-effect analysis over LLVM IR + CFG must-pass / dominance rules disabling each lazy cache + who-may-call on callbacks',
    },
    'C16': {
        'text': 'Decides the borrow discipline structurally, for every API history and every font: (1) a compile-fail witness that the one '
                'class holding a borrowed table cannot be copied; (2) CFG typestate rules on that class: the constructor releases on a '
                'failed check, release() calls release_table only for a non-null borrowed buffer, frees only an owned one and nulls the '
                'pointer on every path, destructor / move-assignment release first, the move operations carry every field including the '
                'ownership flag, decompress releases before it replaces the buffer; (3) who-may-call on get_table / release_table from the '
                'IR call graph and their unreachability from the shaping API; (4) an interprocedural pointer-taint analysis showing no '
                'table-derived pointer is stored into memory that outlives the table; (5) the destructor of every class frees each of the '
                '45 allocator-assigned fields on every path and every function-local allocation reaches a release or hand-over on every '
                'non-allocation-failure path (the failed gr_make_face exits); (6) the C09 rules that no table is asked for after '
                'gr_face_preloadAll.  Allocator balance as a number is NOT decided.  decompress() releases the borrowed table before it sets the ownership flag. Round 3: OPSFLOW (every entry point that takes the client\'s gr_face_ops hands that whole struct on to Face::Face; re-packing single members drops release_table). Round 4: OWNLOCAL also covers locals that receive a fresh allocation by assignment or from a function every return of which is a fresh allocation (gr_make_seg::tmp_feats), follows plain local / parameter copies as aliases and asks a per-callee ownership summary whether a call argument is really handed over; the Face::Table constructor drops a pointer it got from get_table only through release(); the ownership rules are evaluated on the GRAPHITE2_NFILEFACE configuration in the quick tier as well; the DirectCmap same-lifetime allowance of NOESCAPE requires DirectCmap to hold the table as a member.',
        'note': 'Trusted: clang 14 (front end, code generator), tools/grfacts, tools/grir, rules/c16.py, rules/noescape.py, rules/dom.py; tabled '
                'exceptions with reasons (placement-new Code objects, GlyphCache box block).  Allocation failure is outside the quantifier.',
        'technique': 'compile-fail witness + CFG typestate/must-pass rules + who-may-call + interprocedural pointer-taint (escape) analysis on LLVM IR',
    },
    'C13': {
        'text': 'Glyph ids returned by the cmap lookups are run-time values and are NOT decided.  Decided, as necessary conditions of '
                '"both lookup paths agree on every code point": the two cmap implementations share one pair of sub-table selectors '
                '(tabled platform/encoding preference order, every candidate gated by its CheckCmapSubtable*), the cache filler is '
                'instantiated only with iteration/lookup functions of one format, the (plane, format) routing is identical -- DirectCmap '
                'splits on usv > 0xFFFF, CachedCmap\'s two fill passes are called with windows (0xFFFF, 0x10FFFF) for format 12 and '
                '(0, 0xFFFF) for format 4 and store only inside the window -- the pseudo-glyph fallback is consulted exactly when the '
                'cmap returned 0 at both users, and the cached block table is indexed only under the bounds matching its allocation.  NARROWREAD (shared with C01): no table field, e.g. a pseudo-glyph code point, is truncated when stored. Round 3: NEXTINRANGE (each cmap iterator returns c + 1 as \'next in the same range\' only under a dominating strict test end > c, as linear forms). Round 4: SEGSEARCH -- CmapSubtable4Lookup, CmapSubtable12Lookup and Silf::findPseudo only compare code points while searching, so they are interpreted over every order type of (sorted table of up to 4 segments / 3 groups / 3 entries, character, range hint): the segment containing the character is the one whose glyph data is used, 0 is answered exactly when none contains it (the glyph arithmetic after the selection stays value-level); gr_face_is_char_supported asks the cmap on every path; a table field forwarded through a local is not implicitly narrowed where it is handed on.',
        'note': 'Trusted: clang 14 CFG, tools/grfacts, rules/c13.py, rules/dom.py.  The binary-search / group-scan arithmetic inside '
                'TtfUtil::CmapSubtable4Lookup/12Lookup/NextCodepoint is value-level and out of reach (a seeded off-by-one there is a recorded miss).',
        'technique': 'sibling cross-check of two implementations (call arguments, guards, selectors) over AST/CFG facts + dominance rules',
    },
    'C03': {
        'text': 'Decides the preservation step of the stream invariant for every mutator: appendSlot, INSERT, DELETE, PUT_COPY, TEMP_COPY and '
                'reverseSlots are executed symbolically over an abstract heap of {next, prev, first, last} on every complete control path '
                '(loops unrolled), assuming a well-formed pre-state; every link written must be matched by its back-link, null links must '
                'be accompanied by the head/tail update, nothing may point at an off-stream or possibly-deleted slot.  Plus: who may write '
                'the link fields, newSlot returns slots with null links, slot-count accounting (extendLength exactly once per '
                'INSERT/DELETE), indices assigned on one traversal between the substitution and positioning runs and by nobody else, the '
                'loader rejects INSERT/DELETE once indices exist, the pseudo real-glyph clamp on every path.  NOT decided: finiteness of '
                'positions, glyph-id validity beyond the clamp (font data), reverseSlots beyond two loop iterations per loop.  reverseSlots is executed symbolically to a depth that covers its diacritic-run branch, with two further rules: a redirected link must not leave the old neighbour pointing back (R8) and every relinked slot stays on the forward chain from the head (R9). Round 3: PUT_COPY identity (after the whole-slot memcpy into the live slot every path executes firstChild(NULL), nextSibling(NULL) -- before the slot joins its parent\'s child list --, markCopied(false) and markDeleted(false)); WIDTH (no store into Slot::m_index / Segment::m_numGlyphs, and no accessor return of them, goes through an implicit narrowing conversion). Round 4: FREEDSLOT (no dereference of a slot variable is reachable after Segment::freeSlot(x) before x is re-defined); the Slot constructor, which is what wipes a recycled slot, initialises every data member and nulls every link; CLASSBOUND (Silf::getClassGlyph, interpreted on a small class map for every class and index, answers for a linear class only from a cell of that class).',
        'note': 'Trusted: clang 14 CFG, tools/grfacts, rules/linksym.py (symbolic link heap, pre-state axioms), rules/dom.py, the tabled mutator '
                'set with reasons.  Paths are complete up to two visits per block; deeper iterations are not explored.',
        'technique': 'symbolic shape analysis (abstract link-heap execution per CFG path) + who-may-write + dominance/ordering rules',
    },
    'C19': {
        'text': 'Decides the pairing / restoration structure that keeps the stream intact across gr_seg_justify and gr_slot_linebreak_before, '
                'for every width, flag, sub-range and call history: every non-exempt path from the narrowing of m_first/m_last to a return '
                'restores the values saved before it; the entry and exit reverseSlots() pair up under the same, unmodified condition and no '
                'return lies between them; each line-end sentinel added is removed under the same condition, addLineEnd runs while m_last is '
                'still the true tail, and the symbolic composition addLineEnd;delLineEnd restores every link of every pre-existing slot (both '
                'shapes) and frees the sentinel; gr_slot_linebreak_before nulls exactly the three links across the cut; list mutators are '
                'rejected in justification passes.  NOT decided: finiteness of widths/origins, and that reverseSlots undoes itself for every '
                'arrangement of diacritics (value-dependent relinking).  Also: reverseSlots never uses m_last as the end of the list (justify calls it, through positionSlots, with m_last narrowed to the line) and toggles the reversed flag on every path; gr_slot_linebreak_before cuts exactly the links of p->prev() and p. Round 3: the saved head/tail are read after the entry reversal (no reverseSlots between the save and the narrowing write); JUSTPOOL (every record address formed in Segment::newJustify has index <= count - 1, the range of the loop variable taken from its initial value and step direction, as linear forms); SENTINEL (if delLineEnd reads its argument from m_first / m_last, no call between the addLineEnd store and it can reach a writer of that field -- this rule reports the recorded defect F12, listed in known_findings.json). Round 4: NULLWALK (every dereference of a variable that walks `s = s->prev()/next()` in Segment::positionSlots is under a non-null test: a line cut off by gr_slot_linebreak_before need not contain the slot the walk is aimed at); ADVIDX (shared with C02) for the hinted-advance lookup done while justify positions with the caller\'s gr_font.',
        'note': 'Trusted: clang 14 CFG, tools/grfacts, rules/c19.py, rules/linksym.py, rules/dom.py.  The allocation-failure exit `return -1.0` '
                'is exempt (DESIGN.md section 7, F7).',
        'technique': 'CFG must-pass / pairing rules with correlated-condition edge cuts + symbolic composition of two functions on an abstract link heap',
    },
    'C04': {
        'text': 'The forest property is an inductive invariant of run-time structures; what is decided is its preservation obligation at every '
                'function that writes a parent / child / sibling link: who may write the three fields and call their setters; the single '
                'non-null attachTo() site is dominated by not-self, not-current-parent, not-a-scratch-copy, the ancestor-walk result, the '
                'chain-length guard, successful registration with the new parent, and the detach of the old parent; the three list primitives '
                '(child, sibling, removeChild) are executed symbolically and must have exactly the specified write sets (append only when '
                'absent, refuse self, unlink exactly the removed node); freeSlot leaves its parent and orphans only children that name it as '
                'parent; PUT_COPY refuses attached slots and rebuilds the links; TEMP_COPY marks its copy; finalisation rebuilds the base '
                'chain over bases only.  The induction itself (that these steps compose to a forest for every rule sequence) is argued in '
                'DESIGN.md and not mechanised.  TEMP_COPY marks its copy after the whole-slot copy (the mark would otherwise be overwritten). Round 3: PUT_COPY identity on every path (see C03); removeChild completeness (on every path that reports \'not a child\' because the walk ran off the end of the sibling chain, each chain node it passed was compared with the slot to remove). Round 4: BASECHAIN by bounded abstract execution -- Segment::linkClusters with Slot::next/isBase/sibling inlined is interpreted on every stream of up to 5 slots x base/attached pattern x direction bit: no attached slot\'s sibling link (and no slot outside the base chain) is rewritten and the chain visits every base exactly once; ATTACH/childreg -- a refusal of Slot::child() is never ignored where a parent link is or stays set (reported F13 on the pre-fix tree); the Slot constructor nulls m_parent / m_child / m_sibling.',
        'note': 'Trusted: clang 14 CFG, tools/grfacts, rules/c04.py, rules/linksym.py, rules/dom.py, the tabled writer sets.',
        'technique': 'dominance-fact rules + symbolic execution of list primitives over an abstract heap + who-may-write tables',
    },
    'C11': {
        'text': 'Which scalar a sequence decodes to is a run-time value and is NOT decided.  Decided, for every byte / unit string: with a '
                'buffer end, every decode in all three instantiations of the counting loop is dominated by a successful tail validation, '
                'whose failure returns 0 with the error pointer inside the buffer, and the loop stops at the end, at NUL and at an error; '
                'UTF-8 look-ahead reads a further byte only after the previous one passed the continuation test and UTF-16 reads the '
                'second unit only after a high surrogate; on every path of every get() the step length handed to the iterator satisfies '
                '1 <= |l| <= 1 + the number of further units that passed their test (constant propagation over the CFG), so no unvetted '
                'unit -- in particular a terminating NUL -- is stepped over; a constant inequality over the lead-byte tables shows leads above '
                'F4 are rejected through the limit test; the iterator advances by abs(l).  Every decode that can run with a buffer end lies, on every path, after a successful first.validate(last) and after a first != last test since the iterator last moved. Round 4: _utf_codec<W>::validate, interpreted on buffers of -1..6 units with every unit class its own constants distinguish, reads no unit outside [s, e) (W = 8, 16, 32); _utf_codec<32>::get, over an exact partition of the 32-bit unit by its comparison constants and masks, returns every scalar value unchanged with length +1 and every unit >= 0x110000 as U+FFFD with a negative length.',
        'note': 'Trusted: clang 14 CFG and constant folder, tools/grfacts, rules/c11.py, rules/dom.py.',
        'technique': 'CFG dominance / must-pass rules + constant propagation of the step length per path + constant-table inequality',
    },
    'C05': {
        'text': 'Decoded code points and the coverage clause (every character lies in some slot range) are run-time facts and NOT decided.  '
                'Decided: the one loop that creates char-infos and slots appends exactly one of each per iteration with the iteration counter '
                'as id and the code-unit offset c - base; every one of the 20 call sites of the association setters takes a closed-form '
                'argument (another slot\'s before/after/original, the default original, the tabled accumulators) so no arithmetic is done on '
                'character indices; the char-info accessor keeps its bounds test; plus the shared rules: counts set from the characters '
                'consumed (C12), iterator step bound (C11), no list mutation after slot numbering (C03). Round 3: GAPFILL (each extension loop of associateChars is guarded by the unset-test of the field it fills and by nothing else about the character), EDGEFILL (some store of char.after sits in a walk going backwards from Slot::before() or over all characters, and symmetrically for char.before: leading / trailing unclaimed runs get both sides -- this rule reported defect F11 on the pre-fix tree), WIDTH (index-carrying fields of Slot, CharInfo and the character count are never the target of an implicit narrowing conversion). ASSOCPASSES (no path through associateChars goes around one of its passes except on an edge that says there are no slots / no characters); the slot numbering rule is semantic (one counter from 0, one step and one Slot::index per iteration of the stream traversal, value handed over before the step); the walker whose value is stored into Slot::after / before is bounded by its guarded steps (linear forms).',
        'note': 'Trusted: clang 14 CFG, tools/grfacts, rules/c05.py and the rules it shares.  The accumulators of ASSOC and associateChars are '
                'tabled with reasons; associateChars\' range arithmetic itself is value-level.',
        'technique': 'argument-provenance (closed-form) rule over resolved call sites + CFG path rules',
    },
    'C14': {
        'text': 'That the decoder produces exactly the bytes of a reference LZ4 decoder, and that compressed fonts shape identically, are '
                'run-time facts and NOT decided.  Decided, for every byte string presented as a compressed table: each of the four copy calls '
                'is dominated by the bound its copy routine needs (aligned length <= remaining output for the word-wise copy, match source '
                'inside the produced output, LASTLITERALS reserve), the entry and wrap tests dominate decoding, the remaining-output counter '
                'is decremented after every copy before the next guard, the sequence reader tests the source cursor before every header byte '
                'and requires MINCODA, the format constants are coherent; the wrapper tests the header size first, allocates exactly the '
                'announced 27-bit size, compares the decoded length and the version word before installing the buffer, never installs a '
                'failed decode, and adds no size rejection stronger than the decoder\'s own out_size > in_size contract.  Also: overrun_copy\'s word loop stops as soon as the source cursor reaches s + n (so it writes align(n) bytes, what COPYGUARD bounds); every fixed-size write into the freshly allocated output buffer is dominated by the announced size being at least that large.',
        'note': 'Trusted: clang 14 CFG, tools/grfacts, rules/c14.py, rules/dom.py.  Buffer ownership / release is C16 TABLETS.',
        'technique': 'dominance-with-strength rules over CFG facts (guards of every copy and read) + path rule on the output budget',
    },
    'C15': {
        'text': 'Numeric equality with the design-unit run times ppm/upem is a run-time fact and NOT decided.  Decided: (1) font independence of '
                'everything but final positions -- every call site of positionSlots / Slot::finalise passes a literal null font or forwards the '
                'caller\'s own parameter along the final-positioning chain, Segment::finalise is called once by gr_make_seg, and no method of '
                'the passes, the VM or the colliders has a Font parameter; (2) Font::scale() is read only by the five tabled functions; '
                '(3) a flow-sensitive dimension analysis (design units vs pixels, the scale converts) of the float arithmetic of those five '
                'functions on every font != NULL path: no sum, difference, comparison or store mixes the two units, nothing is scaled twice '
                'or divided by the scale in the wrong direction -- the structural condition for linear scaling.  gr_slot_advance_X/Y return a pixel value on every path on which a font is present. Round 3: a pixel-unit value is never compared with a non-zero absolute threshold (the outcome would flip with the scale). Round 4: the pixels-per-em value travels from every gr_make_font* entry to the m_scale initialiser as a floating-point value (no integer-typed parameter, no floating->integral conversion on the way).',
        'note': 'Trusted: clang 14 CFG, tools/grfacts, rules/c15.py, rules/units.py (unit tables keyed by resolved fields / getters, unknown '
                'units are compatible with everything so only definite mixes are reported; at most 4000 paths per function).',
        'technique': 'argument-provenance rule + who-may-call + flow-sensitive dimension (unit) analysis over CFG paths',
    },
    'C18': {
        'text': 'Exact bit packing of several features into words and the bytes of labels are run-time values and NOT decided.  Decided: '
                'set_feature_value is failure-atomic (no write to the destination can precede a `return false`), the masked write is '
                'clear-then-set on the word made valid by resize and is dominated by the range test, the face test and the map-identity '
                'test; the read is guarded the same way; a feature without settings accepts any 16-bit value and one with settings the '
                'maximum computed from them, where the 16-bit setting value is compared after zero-extension; the constructor moves the bit '
                'offset to the next chunk on every path on which a field would straddle; both clone sites go through the copy constructor; '
                'the Sill entry is selected by tag equality with the defaults as fallback; the setting-index test; and the shared '
                'tag-normalisation rule (space- and zero-padded tags). Round 3: the shift m_bits of a FeatureRef is computed after the chunk bump and before the advance of the running offset; LENUNIT (getName reports the length in units written into the buffer it returns, for every encoding branch); IDORDER (no ordering of 32-bit ids by the sign of their wrapped difference). Round 4: a language tag / feature id read from Sill or Feat and forwarded through a local is not implicitly narrowed on its way into FeatureRef::applyValToFeature (NARROWREAD, forwarded form).',
        'note': 'Trusted: clang 14 CFG and type checker (cast chains), tools/grfacts, rules/c18.py, rules/tagnorm.py, rules/dom.py.',
        'technique': 'CFG failure-atomicity / dominance rules + cast-chain typing + must-pass on the chunk bump + sibling tag-normalisation rule',
    },
    'C10': {
        'text': 'That all option combinations and both table sources produce identical segments is a run-time fact and NOT decided.  Decided, as '
                'its structural conditions: the option word reaches only the tabled option tests (preloadGlyphs twice, cacheCmap once) and '
                'forwarding calls along the load chain and is never stored; the eager and the lazy glyph path both (and only they) produce '
                'glyphs through Loader::read_glyph / read_box and are the only writers of the cache cells; cells of the lazily filled cache '
                'are read only by the loader and the tabled accessors that run on already-loaded glyphs (a predicate evaluated before the load '
                'must not look at them); the file face is distinguished from a callback face only for ownership; and the shared C13 rules '
                'that the direct and the cached cmap select sub-tables and route planes identically.  OPTFLOW also decides which parameter of each face-construction entry point reaches the options word (exactly faceOptions). Round 3: OPSSIZE (Face::m_ops is zeroed and then filled with min(sizeof m_ops, ops.size) bytes, nothing else writes it), BOXPARITY (whether the lazy loader creates a glyph\'s box does not depend on values the loader reported for that one glyph), NEXTINRANGE via C13. Round 4: SEGSEARCH (shared with C13) -- the format 4 / format 12 searches find the segment that contains the character both without a range hint (direct cmap) and with it (cached cmap), decided over every order type of small sorted tables.',
        'note': 'Trusted: clang 14 CFG, tools/grfacts, rules/c10.py, rules/c13.py.  Value-level lookup arithmetic inside TtfUtil is out of reach.',
        'technique': 'parameter taint (use classification) + sibling / who-may-call / who-may-read tables over resolved declarations',
    },
    'C06': {
        'text': 'C06 is almost entirely a statement about the output of rule programs (FSM walk, start-state choice, per-slot constraint '
                'evaluation, cursor adjustment, equality with a reference semantics): NOT decidable by static analysis and not claimed.  '
                'Decided, very narrowly, as necessary conditions: the comparison-only function RuleEntry::operator< is evaluated over all 9 '
                'order types of (sort key, rule address) and must be "longer sort key first, then earlier rule"; the qsort comparator and the '
                'cross-state merge use it in both directions and drop duplicates; findNDoRule runs the action of the first candidate whose '
                'constraint passed; none of the 45 opcode handlers bound for constraint code calls a stream mutator and the loader rejects '
                'non-immutable constraints (so a rule that does not fire leaves the glyph unchanged); the pass index only moves forward apart '
                'from the tabled bidi re-entry; freed slots have their whole user-attribute block wiped before reuse.  Also: the qsort comparator is evaluated over its three order types; every block copy / wipe of a slot\'s user attributes covers count * element size; the reversed-stream flag is toggled on every path through reverseSlots. Round 4: every state\'s rule list is sorted with cmpRuleEntry at load under no guard other than the empty-list test; Segment::passBits() is read inside the pass loop (not hoisted across passes that create glyphs); Segment::glyphAttr hands glyph attributes to rule code as signed 16-bit values.',
        'note': 'Trusted: clang 14 CFG, tools/grfacts, rules/c06.py, rules/vm.py.  Everything about which rule matches where is out of reach of this family.',
        'technique': 'abstract evaluation over order types (comparison-only function) + structural / call-set purity rules',
    },
    'C01': {
        'text': 'General memory safety of the table parsers on arbitrary bytes is NOT decided (they are safe partly by arithmetic that no check '
                'states).  Decided, as necessary conditions, narrowly: a frozen, hand-confirmed inventory of every load-time rejection in the 44 '
                'parser functions (249 passing-direction facts with multiplicity, tables/validators.json) is re-evaluated on the current CFGs with '
                'strength comparison, so a removed or weakened check (>= to >, a smaller constant, a dropped disjunct) is reported with the '
                'fact the parser used to rely on; the per-opcode operand validations of the bytecode loader (68, the class-id / user-attribute / '
                'slot-reference ones being load-bearing for run-time sinks); no failure result is dropped (121 Error::test and load-status call '
                'sites); the decoder recursion is cut by the nested-context rejection and Code::failure invalidates the code; constant coherence '
                '(NUMCONTEXTS, attrid extent, gralloc overflow test); and the shared ownership / borrow rules for the failed-load exits (C16).  Also decided: every branch on which an Error::test fired is a tabled rejection whatever the function then returns; no big-endian table field is stored into a narrower integer (NARROWREAD census); Face::Table::decompress releases the borrowed table while the ownership flag still describes it. Round 3: NAMEBOUND (NameTable::getName forms its read pointer m_nameData + offset only under a dominating test offset + length <= m_nameDataLength on the untruncated sum, compared as linear forms); a bound hoisted into a local narrower than the arithmetic it holds is spelled as the truncated value (narrowN(...)) and no longer matches a tabled rejection.',
        'note': 'Trusted: clang 14 CFG, tools/grfacts, rules/validators.py, rules/opchecks.py, rules/c01.py, rules/dom.py, and the two frozen tables, '
                'which are regenerated only after reading the diff.  A renamed operand is exit 2 (re-confirm), never a pass.  Parser loop termination '
                'and arithmetic overflow in size expressions are not decided.',
        'technique': 'frozen inventory of dominating rejections with strength comparison + def-use rule on failure results + CFG guard rules',
    },
}

# what round 5 added to each claim (appended to the text above; DESIGN.md section 13.8 has the detail)
ROUND5 = {
    'C01': 'the load-time rejections are compared per switch arm (a stronger test in a sibling arm no longer stands in for a dropped one); OVERWRITE / '
           'FREENULL (no second fresh allocation into an owning field on one path; a release leaves the field re-assigned or null); LOADERSIB for '
           'gr_face_preloadGlyphs: the box pool is sized by the sub-box count of EVERY glyph read (accumulating or per-glyph contract of read_glyph) at '
           'the same bytes per sub-box as read_box writes.',
    'C02': 'DERIVED (a member pointer computed from a member buffer is computed again after the buffer is reallocated: Code::_data after the shrinking '
           'realloc of _code); LOOPLIMIT by bounded execution: Pass::adjustSlot interpreted on every stream of up to 3 slots x high-water mark x cursor x '
           'flag x advance keeps "highpassed() only while the cursor is beyond the high-water slot", the invariant the loop limit of Pass::runGraphite '
           'hangs on; the box-pool rules of C01/C10.',
    'C03': 'INDEX (PUT_COPY restores the slot\'s own index: defect F15, repaired); getClassGlyph interpreted for class ids around the class count.',
    'C04': 'DETACH/"no TEMP_COPY for a rule slot that is deleted": the insertion in decoder::apply_analysis is dominated by a test of a per-slot flag the '
           'DELETE arm of analyse_opcode sets, so SlotMap::collectGarbage finds a deleted slot through its own map entry and Segment::freeSlot takes it '
           'out of its parent\'s child chain (defect F14, repaired in /repo a27117cd).',
    'C05': 'the text-reading bounded execution of C12 (TEXTEXEC) is shared: one char-info per character actually read.',
    'C06': 'PASSORDER by bounded execution: Face::runGraphite, with both Silf::runGraphite calls inlined from their CFGs and Pass::runGraphite a recording '
           'native, is interpreted on every pass layout the loader admits (n <= 4 passes quick / 7 thorough, first positioning pass p <= n, bidi pass none '
           'or p..n): every pass runs exactly once in font order, the bidi step exactly once at its place, the characters are associated once between '
           'the two halves (this reported defects F17 and F18 on the unchanged tree, both repaired); Slot::setGlyph stores glyph id, real glyph id, advance '
           'and bidi class on every path; the comparator of the sorted rule lists is compared by branch condition, not by text.',
    'C07': 'DRIVERS: the epilogue writes the slot-map position back before storing through it; DERIVED (shared with C02): the operand bytes the handlers '
           'claim are read through _data, which is re-derived after the code block is reallocated.',
    'C08': 'Font::Font interpreted: every cell of the advance cache starts at the "not yet asked" value.',
    'C09': 'NOGLOBAL in the telemetry configuration (-DGRAPHITE2_TELEMETRY, units that install an allocation category): the scope guard restores the '
           'process-wide category pointer on every path of its destructor and every raw set_category() is under a guard, so the pointer is back to null '
           'when gr_make_face returns; m_hinted tests the caller\'s handle, not the never-null member.',
    'C10': 'BOXSIZE / box count (shared with C01, C02); AGREE (shared with C13).',
    'C11': 'COUNTEXACT: gr_count_unicode_characters interpreted over every short code-unit sequence of every encoding form class; UTF-32 range test.',
    'C12': 'TEXTEXEC: Segment::read_text / process_utf_data interpreted over every short text of every code-unit class: nothing is read at or beyond the '
           'first NUL or the nChars-th character, one char-info per character.',
    'C13': 'SEGSEARCH (the format-4 binary search and the format-12 group search interpreted over every small sorted table: the segment found is the one '
           'containing the code point, nothing outside the table is read); AGREE (CachedCmap built by its own constructor from a small modelled cmap and '
           'queried for every code point gives what DirectCmap gives: this reported defect F16 on the unchanged tree, repaired).',
    'C14': 'COPYGUARD by contract: safe_copy / fast_copy / overrun_copy are interpreted for every small (length, distance, room) and write exactly the bytes '
           'their callers budget for; no exit of Face::Table::decompress leaves the compressed bytes installed.',
    'C15': 'FONTFLOW/use: the only things done with a Font pointer are forwarding it as a Font, calling its members, destroying it and branching on its '
           'null-ness; the null-ness never becomes data (a bool argument, a stored flag), directly or through a local; m_hinted tests the caller\'s handle.',
    'C16': 'OVERWRITE, FREENULL, stores through reference locals, fn-pointer hoisting.',
    'C17': 'VERDICTSHIFT (the shift handed back is the one the verdict was computed for).',
    'C18': 'LANGMATCH/fresh copy: in SillMap::readSill the object every applyValToFeature writes into is created from m_defaultFeatures inside the language '
           'loop; FAILATOMIC through List.h\'s own resize interpreted on a modelled heap; a tag normaliser that is not a recognisable padding chain is '
           'interpreted on a 10^4 byte-class grid of tags against its definition.',
    'C19': 'JUSTPOOL: SlotJustify::size_of(L) interpreted for L = 0..8 bounds every store of Slot::setJustify / SlotJustify::LoadSlot and the clear of '
           'Segment::freeJustify (an out-of-range index is reported by the interpreter); every value stored in the pool growth count has lower bound >= 1; '
           'positionSlots re-reverses on the decision taken at entry.',
    'C20': 'the grid interpretation of an unrecognised normaliser (shared with C18).',
}
for _k, _v in ROUND5.items():
    if _k in CLAIMS:
        CLAIMS[_k]['text'] += '  Round 5: ' + _v

# what round 6 added to each claim (DESIGN.md section 13.9)
ROUND6 = {
    'C01': 'a check-after-use contradiction rule over the 51 parser functions of the inventory (no table element is read through an index before the test that '
           'rejects on it); every extent test of Pass::readPass dominates every decoder; no computed size is narrowed into a 16-bit local (defect F20, repaired); '
           'the preload constructor nulls the published pool head where it gives a pool up; a failed realloc frees the old block.',
    'C02': 'Segment::newSlot interpreted for every small block size (the free list is exactly the rest of the new block, the slot handed out is unlinked); the stack '
           'constants are found as enumerators too, so a signed ENDOP division is reported.',
    'C03': 'INSERT and DELETE handlers interpreted on every stream of up to 3 slots x current slot (live, null, deleted earlier) x high-water mark: a well-formed '
           'chain with exactly the one slot added / removed, count in step; reverseSlots and newSlot interpreted (shared with C19, C02); the advance cache starts initialised.',
    'C04': 'Slot::child / removeChild on every child chain of up to 4 and every argument; Segment::freeSlot on every position among up to 3 siblings with 0..2 own or '
           'inherited children; collectGarbage follows every rule action, also in the tracing branch (tracepass configuration); reverseSlots leaves m_first / m_last at the ends.',
    'C05': 'reverseSlots interpreted (shared): no slot drops out of the stream.',
    'C06': 'the first high-water mark of Pass::runGraphite is taken after the reversal.',
    'C07': 'DRIVERS: the registers of the call-threaded interpreter that alias machine state (status, smap, ip) are references.',
    'C09': 'the telemetry rule orders guard and raw set_category inside a block too.',
    'C10': 'the preload box loop starts at glyph 0; AGREE includes a format 4 table whose last segment is a real range (defect F21, repaired).',
    'C11': 'ERRSET (every valid-encoding return hands pError to count_unicode_chars); COUNTEXACT also for UTF-8; _utf_codec<8/16>::get and ::put give the scalar value / '
           'the standard encoding on a grid of 25 scalar values.',
    'C13': 'the glyph arithmetic of CmapSubtable4Lookup by concrete execution (idDelta wrap, near and far glyph arrays); the fill ranges of the cached cmap are the '
           'ranges DirectCmap answers from, U+FFFF and U+10FFFF included.',
    'C14': 'the ownership flag of Face::Table changes only together with the pointer (no release() in between).',
    'C15': 'the size parameter reaches m_scale unmodified (no assignment, no replacement expression on the way).',
    'C16': 'ownership summary by released fields (a pointer stored into a field the class never releases is borrowed); failed realloc; decompress drops the borrowed '
           'buffer only through release(); flag and pointer change together; pool heads.',
    'C17': 'Zones::exclude_with_margins removes the hard range on every path; initSlot reads no member before re-assigning it from a parameter.',
    'C18': 'SillMap::cloneFeatures interpreted on every order of up to 3 language entries; the UTF converters behind the label API are exact on the scalar grid.',
    'C19': 'Segment::reverseSlots interpreted on every stream of up to 5 (thorough: 8) slots x combining-mark placement: well-formed chain of the same slots, the '
           'documented cluster order, and its own inverse; newSlot hands out an unlinked slot.',
    'C20': 'the public headers are parsed: no pointer-taking API function is declared __attribute__((const)); a tag normaliser is recognised in any src/ file.',
}
for _k, _v in ROUND6.items():
    if _k in CLAIMS:
        CLAIMS[_k]['text'] += '  Round 6: ' + _v

# the deciding method of the checks that rounds 4-6 built on rules/ordint.py
_BOUNDED = ' + bounded exhaustive interpretation of the exported CFGs (rules/ordint.py: order types / object graphs where the code only compares, concrete class representatives where it computes) on all inputs up to a small stated size'
for _k in ('C01', 'C02', 'C03', 'C04', 'C05', 'C06', 'C08', 'C10', 'C11', 'C12', 'C13', 'C14', 'C16', 'C18', 'C19', 'C20'):
    if _k in CLAIMS and 'rules/ordint.py' not in CLAIMS[_k]['technique']:
        CLAIMS[_k]['technique'] += _BOUNDED

# what round 7 added to each claim (DESIGN.md section 13.10)
ROUND7 = {
    'C01': 'attrid[] is indexed only under a successful valid_upto(gr_slatMax, same operand).',
    'C02': 'the justification-record bounds also for Slot::getJustify.',
    'C03': 'every doMirror call is dominated by a non-zero test of the mirroring attribute (defect F22, repaired); CharInfo\'s constructor initialises every member; '
           'NOMUTPOS reads facts about the pass index only.',
    'C04': 'the slot map always ends with the slot behind the match (runFSM\'s final push is unconditional), so collectGarbage sees a deleted last slot.',
    'C05': 'NOMUTPOS is shared: no pass that runs after associateChars may insert or delete.',
    'C07': 'a handler whose effect depends on the stack distance deviates from the specification.',
    'C08': 'no mutable static storage in either VM driver; the telemetry rule; CharInfo fully initialised.',
    'C09': 'NOGLOBAL on the declarations themselves (the VM driver that is parsed but not linked).',
    'C10': 'no class outside three tabled ones has a mutable member (a loader call must not remember the call before it).',
    'C13': 'AGREE with BMP groups inside the format 12 table, segments around the surrogate block, probes in both orders; the pseudo-glyph map is stored as read.',
    'C14': 'the Table life cycle with empty rejected buffers and damaged blocks whose version word still matches.',
    'C15': 'only the default advance callback asks a font for its face; per result variable the same design-unit members flow in with and without a font; '
           'justify positions with the font last, also with tracing compiled in.',
    'C16': 'pointer-derived arguments are sinks only if the callee keeps them; an array of owned blocks is freed only together with its blocks.',
    'C17': 'per-axis linear forms: resolve converts axis i back with (1,0), (0,1), (1,1), (1,-1); initSlot bounds each diagonal by the rooms derived from the axis; '
           'mergeSlot builds the target position from members only; a tolerance in the end-point classification is reported.',
    'C18': 'mask_over_val interpreted for every bit length; the running bit offset is at least 16 bits wide; getName reads its in/out language before writing it.',
    'C19': 'newJustify interpreted (null-terminated free list); the base chain justify walks is finite and complete (shared with C04).',
    'C20': 'a constant mask that clears bits of a stored tag byte is a violation.',
}
for _k, _v in ROUND7.items():
    if _k in CLAIMS:
        CLAIMS[_k]['text'] += '  Round 7: ' + _v

# what round 8 added to each claim (DESIGN.md section 13.11)
ROUND8 = {
    'C01': 'decoder::load bounds the operands by the end of the range it decodes; a count read from the font is never left without its array on a success return; '
           'the answer of every sfnt helper with out-parameters is consumed.',
    'C02': 'FeatureRef::applyValToFeature interpreted on exact-size destinations (shared with C18); the attribute stride of newSlot is the per-slot size, also with tracing compiled in; '
           'a hand-over through a call result is void where that result is null (OWNLOCAL).',
    'C03': 'addLineEnd + delLineEnd interpreted: the marker goes in and out without a trace; the hinted-advance sentinel may not be a NaN.',
    'C04': 'Machine::run + collectGarbage interpreted on every loadable NEXT / DELETE / INSERT program: every slot an action deletes is handed back to the segment (defect F23, repaired; F24 recorded); '
           'the PUT_COPY handler interpreted; the analyser never takes the DELETE mark back.',
    'C05': 'appendSlot fills the char-info on every path but allocation failure; justify gives the segment its own ends back (shared with C19); PUT_COPY leaves a live slot (shared with C04).',
    'C06': 'Pass::runFSM interpreted on a three-state machine; INSERT / DELETE handlers (shared with C03); Slot::finalise with symbolic floats: a shift moves the glyph and not its advance; '
           'who may read the direction of the text.',
    'C07': 'both epilogues free a deleted slot found in the hand-back cell; sibling derivations of _data use the reallocating constructor\'s layout; a handler that resets sp to the stack base.',
    'C08': 'no out-parameter of a refused sfnt helper goes into a cached glyph; the attribute stride with a logger attached.',
    'C09': 'the tracing build\'s global json logger is the one tabled exception of the declaration-level NOGLOBAL.',
    'C10': 'the acceptance bound of the glyph attribute count as a linear form; the file face reads exactly the directory length; a cached cmap of well-formed tables is usable.',
    'C11': 'the decoding loop of gr_make_seg (shared with C12).',
    'C12': 'the caller\'s nChars reaches the decoding loop unchanged.',
    'C13': 'the sub-table gates interpreted on every well-formed table of the agreement run; be::swap in the narrowing census; the two users of the pseudo-glyph map agree (interpreted).',
    'C14': 'overrun_copy measured against align() itself.',
    'C15': 'Slot::finalise with symbolic floats: the run with a font computes scale times the design-unit run (hinted: plus the hinting difference); justify converts the width before any unit-dependent read.',
    'C16': 'Code copy / assignment interpreted: exactly one owner; destructor releases do not depend on other members; gr_start_logging stops the running log first (tracing build).',
    'C17': 'Zones::initialise interpreted on re-used sets; mergeSlot places the limit window of axis i at that axis\' form of the offset; every resolveCollisions call scans from an end of the range.',
    'C18': 'applyValToFeature interpreted; utf16::validate interpreted on label strings; implicit sign-extending widenings are tabled; TAGNORM also on the tracing build of the API units.',
    'C19': 'the json contexts of the tracing justify are balanced on every path; positionSlots compares the direction as a truth value; justification space widens the advance one for one (symbolic finalise).',
    'C20': 'gr_str_to_tag interpreted on exact-size buffers whatever its form; TAGNORM also on the tracing build of the API units.',
}
for _k, _v in ROUND8.items():
    if _k in CLAIMS:
        CLAIMS[_k]['text'] += '  Round 8: ' + _v

# what round 9 added to each claim (DESIGN.md section 13.12)
ROUND9 = {
    'C01': 'the Glat iterator\'s end test leaves room for a whole value; a tabled validator called with other operands is a violation; the Gloc attribute-id array is counted in 16-bit units; '
           'the guarded length of a name string is in bytes.',
    'C02': 'Segment\'s constructor interpreted (first newSlot with a block size >= 1); no fixed-size local array is indexed without a constant bound; the loader\'s tabled rejections and the '
           'child-chain surgery are shared (validators, listops).',
    'C03': 'the count rules of C12 and RESTORE of C19 are shared; gr_face_n_glyphs counts what the Gloc table holds.',
    'C04': 'the DELETE arm of the code analyser marks the action as deleting, unconditionally; collectGarbage covers the cell in front of the context (defect F26, found by the thorough tier, repaired).',
    'C05': 'the caller\'s nChars reaches the decoding loop unchanged (shared with C12); slot members are addressed by role in the PUT_COPY execution.',
    'C06': 'who tells positionSlots which direction; Pass::adjustSlot and the attribute stride are shared; the trace cell freeSlot bumps has room in newSlot.',
    'C10': 'the preloading constructor reads the boxes whatever the number of sub-boxes (defect F25, repaired); the sub-box total is wider than 16 bits.',
    'C12': 'the text execution also decides ill-formed text: one U+FFFD per offending unit, to the NUL or nChars.',
    'C13': 'malloc\'ed cache blocks hold garbage in the agreement run; DirectCmap\'s constructor is interpreted; ~CachedCmap frees every block its constructor made.',
    'C15': 'no API query positions the segment again; justify branches on design-unit quantities only.',
    'C16': 'a field holding a fresh allocation is not nulled unreleased; aliases through calls that return the address of their argument; OPTFLOW and CMAPBOUND shared.',
    'C17': 'ShiftCollider::resolve by symbolic execution (the shift handed back is the cheapest axis\' free position); insert / push_back handed a reference to an own element; ShiftCollider::initSlot by symbolic execution (every axis range is the set of positions inside the limit rectangle).',
    'C18': 'SillMap::readSill interpreted on byte-level tables; per-feature values are per-iteration; a label is built from bytes of the name table only.',
    'C19': 'no fixed-size local array indexed by the level count; getSlotBidiClass returns what it caches.',
    'C20': 'gr_tag_to_str interpreted on exact-size buffers whatever its form.',
}
for _k, _v in ROUND9.items():
    if _k in CLAIMS:
        CLAIMS[_k]['text'] += '  Round 9: ' + _v

# sharing of rules between properties whose texts overlap (DESIGN 13.12, seeded/own_matrix.json)
SHARED = {
    'C01': 'COPYGUARD of C14',
    'C02': 'DETACH of C04, ZONESET of C17, NULSTOP/ADVANCEBOUND of C12, UNDO of C19',
    'C03': 'the validator inventory of C01',
    'C05': 'INDEX, LINKSYM, GROWTH of C03; LEADREJECT of C11',
    'C06': 'DETACH, LISTOPS of C04; DRIVERS, SIG of C07; GIDCLAMP of C03; LOOPLIMIT of C02; the validator inventory of C01',
    'C08': 'NOESCAPE of C16; LOADERSIB of C10',
    'C10': 'TABLETS of C16',
    'C11': 'TEXTFLOW, ONEDECODE of C12; CINFO of C05',
    'C13': 'the validator inventory of C01',
    'C15': 'UNHINTED of C09',
}
for _k, _v in SHARED.items():
    if _k in CLAIMS:
        CLAIMS[_k]['text'] += '  Rules shared from other properties (soft view, reported under this property\'s rule ids): ' + _v + '.'

ROUND10 = {
    'C01': 'the string storage of the name table ends where the table ends; the telemetry scope rule (shared with C09).',
    'C02': 'KernCollider::initSlot interpreted with exact floats: positive slice width whatever the margin attribute; the slot chain stays NULL-terminated (REVERSEPAIR shared).',
    'C05': 'an ill-formed code unit stands for U+FFFD and nothing else (text execution, shared with C12).',
    'C06': 'decoder::analyse_opcode interpreted: every PUT_* action marks the position it overwrites as changed.',
    'C08': 'a cached cmap block holds no uninitialised cell (PLANEROUTE shared); the telemetry category is switched at load time only.',
    'C09': 'telemetry build, every unit: no function reachable from shaping declares a category guard.',
    'C11': 'the count run builds its iterators with the iterator\'s own constructor.',
    'C12': 'the value appended for an ill-formed unit is U+FFFD.',
    'C16': 'Face::Face interpreted for caller structures of 8..48 bytes: release_table survives a longer gr_face_ops.',
    'C17': 'mergeSlot\'s out-of-reach short circuit by symbolic execution; Pass::resolveCollisions interpreted on every small chain x forest x flags (the neighbours that must be merged); positionSlots before every collision pass.',
    'C18': 'FeatureMap::findFeatureRef interpreted on ids that differ only in padding; the name string storage length.',
    'C19': 'the prologue of Segment::justify interpreted for omitted pFirst / pLast with and without the reversal.',
    'C20': 'local arrays, memcpy and be::peek on real byte arrays in the interpreter: an uninitialised tag byte is a violation.',
}
for _k, _v in ROUND10.items():
    if _k in CLAIMS:
        CLAIMS[_k]['text'] += '  Round 10: ' + _v

ROUND11 = {
    'C01': 'Face::Face reads no further into the caller\'s gr_face_ops than its size says (shared with C16); NameTable::setPlatformEncoding interpreted: the record range getName walks is inside the array.',
    'C02': 'the Glat iterator end test (shared with C01); tracing build: input_slot offsets under their test; GlyphCache::glyph and Silf::runGraphite subscripts under their bounds.',
    'C05': 'the pass type reaches the code loader of every rule action (readPass -> readRules -> Code).',
    'C06': 'ATTACH of C04 shared (PUT_COPY, setAttr on every small forest).',
    'C09': 'Font::Font interpreted for every handle x ops x callback combination: hinted exactly when handle, ops and the x callback are given (defect F27, repaired).',
    'C10': 'what Face::Face leaves in m_ops is decided by interpreting it, not by the spelling of the copied size.',
    'C11': 'every ++ of a UTF iterator variable follows a dereference of that same variable.',
    'C15': 'which fonts are hinted is decided by interpreting Font::Font (defect F27, repaired).',
    'C16': 'no cell of an owning pointer array is filled from another cell of the same array.',
    'C17': 'ShiftCollider::resolve with a symbolic limit: a clamp of the result is not the cheapest axis\' position.',
    'C18': 'readSill on tables with empty entries and shared offsets; labels transcoded by iterators dereferenced before they advance.',
    'C19': 'the glyph cache and the pass array are indexed under their bounds on the paths justify takes.',
}
for _k, _v in ROUND11.items():
    if _k in CLAIMS:
        CLAIMS[_k]['text'] += '  Round 11: ' + _v
