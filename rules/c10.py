"""C10 -- face options change resource behaviour, never results.

Equality of segments across option sets is a run-time fact and NOT decided.  Decided:
  OPTFLOW     the faceOptions value reaches only the tabled option tests (preloadGlyphs in GlyphCache's constructor and in
              Face::readGlyphs, cacheCmap in readGlyphs) and the calls that forward it; it is never stored
  LOADERSIB   the eager (preload) and the lazy glyph paths obtain glyphs only from Loader::read_glyph and boxes only from
              Loader::read_box; nobody else writes the cache arrays
  LAZYACCESS  cells of the lazily filled arrays are read only by the loader itself and the tabled accessors that are used
              on glyphs already loaded through glyph(); predicates evaluated BEFORE a load (check) must not read them
  FILESIB     a file face differs from a callback face only by its table callbacks: Face::m_pFileFace is touched only for
              ownership
  SELECTORS / PLANEROUTE / CMAPBOUND  (shared with C13) the direct and the cached cmap route code points identically
"""
from . import dom, c13
from .facts import AnalysisBroken
from .util import callers_of, calls_in, field_writes

LEVEL = 'other'
EXPLANATION = ('Taint of the option word (every use of the parameter along the load chain is a tabled option test or a forwarding '
               'call), sibling rules between the eager and lazy glyph loaders and between the file and callback faces (who may call '
               'the two Loader producers, who may write or read the cache cells), and the shared cmap routing rules.  That two '
               'faces produce identical segments is a run-time fact; these rules are the structural conditions for it.')
FLOORS = {'OPTFLOW': 4, 'LOADERSIB': 5, 'LAZYACCESS': 8, 'FILESIB': 1, 'SELECTORS': 12, 'PLANEROUTE': 8}

OPT_CHAIN = [('gr_make_face_with_ops', 'faceOptions'), ('(anonymous namespace)::load_face', 'options'),
             ('graphite2::Face::readGlyphs', 'faceOptions'), ('graphite2::GlyphCache::GlyphCache', 'face_options')]
OPT_FORWARD = {'(anonymous namespace)::load_face', 'graphite2::Face::readGlyphs', 'graphite2::GlyphCache::GlyphCache', 'gr_make_face_with_ops'}
OPT_TESTS = {'gr_face_preloadGlyphs', 'gr_face_cacheCmap'}

LAZY_READERS = {
    'graphite2::GlyphCache::GlyphCache': 'constructor (preload fill)',
    'graphite2::GlyphCache::~GlyphCache': 'destructor',
    'graphite2::GlyphCache::glyph': 'the lazy loader itself',
    'graphite2::GlyphCache::slant': 'accessor used on glyphs of existing slots (loaded by setGlyph -> glyphSafe)',
    'graphite2::GlyphCache::getBoundingMetric': 'calls glyph(glyphid) first for the bbox cases; box cases are used on loaded glyphs',
    'graphite2::GlyphCache::getBoundingSlantBox': 'collision code, after the slot\'s glyph was loaded',
    'graphite2::GlyphCache::getSubBoundingMetric': 'as above',
    'graphite2::GlyphCache::getSubBoundingSlantBox': 'as above',
    'graphite2::GlyphCache::getSubBoundingBBox': 'as above',
    'graphite2::GlyphCache::numSubBounds': 'as above',
}


def optflow(run, fx):
    for q, pname in OPT_CHAIN:
        fns = [f for f in fx.fns_named(q) if any(p['n'] == pname for p in f.f['params'])]
        if not fns:
            run.broken('OPTFLOW', '%s(%s)' % (q, pname), 'function / parameter not found')
            continue
        fn = fns[0]
        vid = [p for p in fn.f['params'] if p['n'] == pname][0]['vid']
        uses = [e for _, e in fn.elements() if e['k'] == 'DeclRefExpr' and e.get('vid') == vid]
        bad = []
        kinds = []
        for u in uses:
            cur = u['i']
            verdict = None
            for _ in range(6):
                ps = fn.parents().get(cur)
                if not ps:
                    break
                p = fn.nodes[ps[0]]
                if p['k'] == 'BinaryOperator' and p['op'] == '&':
                    other = [fn.strip_all_casts(c) for c in p['c'] if fn.strip_all_casts(c).get('vid') != vid]
                    nm = (other[0].get('d') or '').split('::')[-1] if other else ''
                    verdict = 'test:' + nm if nm in OPT_TESTS else 'badtest:' + (nm or fn.render(p))
                    break
                if p['k'] in ('CallExpr', 'CXXMemberCallExpr', 'CXXConstructExpr', 'CXXTemporaryObjectExpr'):
                    verdict = 'fwd:' + (p.get('fq') or '?') if (p.get('fq') or '') in OPT_FORWARD else 'badcall:' + (p.get('fq') or '?')
                    break
                if p['k'] == 'CXXNewExpr':
                    cur = p['i']
                    continue
                if p['k'] in ('ImplicitCastExpr', 'ParenExpr', 'CStyleCastExpr', 'CXXFunctionalCastExpr', 'CXXStaticCastExpr'):
                    cur = p['i']
                    continue
                verdict = 'other:' + p['k']
                break
            kinds.append(verdict)
            if verdict is None or verdict.startswith(('bad', 'other')):
                bad.append((u, verdict))
        inst = 'uses of %s in %s' % (pname, q.split('::')[-1])
        if bad:
            u, v = bad[0]
            run.violated('OPTFLOW', inst, fn.loc(u), 'the face-options word is used outside the tabled option tests / forwarding calls (%s): results may now depend on an '
                         'option that should only change resource behaviour' % v)
        else:
            run.held('OPTFLOW', inst, fn.where(), '%d uses: %s' % (len(uses), sorted(set(kinds))))
    stored = [f for f, ws in field_writes(fx).items() if False]
    # gr_face_dumbRendering is tested nowhere
    users = []
    for fn in fx.all_fns():
        for _, e in fn.elements():
            if e['k'] == 'DeclRefExpr' and (e.get('d') or '').endswith('gr_face_dumbRendering'):
                users.append(fn.q)
    if users:
        run.violated('OPTFLOW', 'dumbRendering unused', '', 'the deprecated gr_face_dumbRendering bit is tested in %s' % sorted(set(users)))
    else:
        run.held('OPTFLOW', 'dumbRendering unused', '', 'tested nowhere', False)



API_OPTION_POS = {'gr_make_face_with_ops': 2, 'gr_make_face': 2, 'gr_make_face_with_seg_cache_and_ops': 3, 'gr_make_face_with_seg_cache': 3,
                  'gr_make_file_face': 1, 'gr_make_file_face_with_seg_cache': 2}


def optentry(run, fx):
    """which parameter of each face-construction entry point reaches the options word of gr_make_face_with_ops: exactly the one the
    public header calls faceOptions (position table above), through however many forwarding helpers"""
    flows = {('gr_make_face_with_ops', 2)}
    changed = True
    rounds = 0
    while changed and rounds < 8:
        changed = False
        rounds += 1
        for fn in fx.all_fns():
            if not fn.file.endswith(('gr_face.cpp', 'gr_font.cpp', 'Face.cpp', 'FileFace.cpp')):
                continue
            pv = {p_['vid']: i for i, p_ in enumerate(fn.f.get('params') or [])}
            for _, e in fn.elements():
                if e['k'] not in ('CallExpr', 'CXXMemberCallExpr') or not e.get('fq'):
                    continue
                for (cq, j) in list(flows):
                    if e['fq'] != cq:
                        continue
                    args = [a for a in (e.get('args') or [])]
                    if j >= len(args) or args[j] is None:
                        continue
                    a = fn.deref(args[j])
                    if a['k'] == 'DeclRefExpr' and a.get('vid') in pv and (fn.q, pv[a['vid']]) not in flows:
                        flows.add((fn.q, pv[a['vid']]))
                        changed = True
    for api, pos in sorted(API_OPTION_POS.items()):
        fns = fx.fns_named(api)
        if not fns:
            if api.startswith('gr_make_file_face') and 'FileFace.cpp' not in fx.raw['units']:
                continue
            run.broken('OPTFLOW', 'options parameter of %s' % api, 'entry point not found')
            continue
        got = sorted(i for (q, i) in flows if q == api)
        inst = 'options parameter of %s' % api
        if got == [pos]:
            run.held('OPTFLOW', inst, fns[0].where(), 'parameter #%d (faceOptions) and no other reaches the options word' % pos)
        else:
            run.violated('OPTFLOW', inst, fns[0].where(), 'the options word of the face built by %s comes from parameter(s) %s, the header says parameter #%d (faceOptions): '
                         'the face is built with options the caller did not ask for (e.g. not preloaded although gr_face_preloadAll was passed)' % (api, got, pos))


def loadersib(run, fx):
    for q in ('graphite2::GlyphCache::Loader::read_glyph', 'graphite2::GlyphCache::Loader::read_box'):
        us = sorted(set(f.q for f, _ in callers_of(fx, q)))
        want = ['graphite2::GlyphCache::GlyphCache', 'graphite2::GlyphCache::glyph']
        inst = 'callers of %s' % q.split('::')[-1]
        if us == want:
            run.held('LOADERSIB', inst, '', 'preload loop and lazy loader only')
        else:
            run.violated('LOADERSIB', inst, '', '%s is called from %s; the eager and the lazy path must both (and only they) produce glyph data through it' % (q, us))
    # element writers of the two arrays
    for arr in ('graphite2::GlyphCache::_glyphs', 'graphite2::GlyphCache::_boxes'):
        ws = set()
        for fn in fx.all_fns():
            for _, e in fn.elements():
                if e['k'] in ('BinaryOperator', 'CompoundAssignOperator') and e['op'].endswith('=') and e['op'] not in ('==', '!=', '<=', '>='):
                    l = fn.strip(e['c'][0])
                    if l['k'] == 'ArraySubscriptExpr':
                        b = fn.strip_all_casts(l['c'][0])
                        if b['k'] == 'MemberExpr' and b['d'] == arr:
                            ws.add(fn.q)
                if e['k'] == 'DeclStmt':
                    for d in e['decls']:
                        if d.get('t', '').endswith('&') and d.get('init') is not None:
                            x = fn.strip_all_casts(d['init'])
                            if x['k'] == 'ArraySubscriptExpr' and fn.strip_all_casts(x['c'][0]).get('d') == arr:
                                ws.add(fn.q)
        allowed = {'graphite2::GlyphCache::GlyphCache', 'graphite2::GlyphCache::glyph'}
        inst = 'writers of %s[...]' % arr.split('::')[-1]
        if ws <= allowed and ws:
            run.held('LOADERSIB', inst, '', 'written only by %s' % sorted(ws))
        else:
            run.violated('LOADERSIB', inst, '', 'cache cells of %s are written by %s' % (arr, sorted(ws - allowed)))


def lazyaccess(run, fx):
    readers = {}
    for fn in fx.all_fns():
        for _, e in fn.elements():
            if e['k'] == 'ArraySubscriptExpr':
                b = fn.strip_all_casts(e['c'][0])
                if b['k'] == 'MemberExpr' and b['d'] in ('graphite2::GlyphCache::_boxes', 'graphite2::GlyphCache::_glyphs'):
                    readers.setdefault(fn.q, []).append(e)
    for q, es in sorted(readers.items()):
        inst = 'cell access in %s' % q.split('::')[-1]
        if q in LAZY_READERS:
            run.held('LAZYACCESS', inst, '', LAZY_READERS[q], False)
        else:
            fn = [f for f in fx.fns_named(q)][0]
            run.violated('LAZYACCESS', inst, fn.loc(es[0]), '%s reads a cell of the lazily filled glyph cache (%s) but is not the loader nor one of the tabled accessors used on '
                         'already-loaded glyphs: on a face without gr_face_preloadGlyphs the cell may still be empty, so the answer differs from a preloaded face'
                         % (q, fn.render(es[0])))
    if len(readers) < 8:
        run.broken('LAZYACCESS', '*', 'only %d functions touching the cache cells found' % len(readers))


def filesib(run, fx):
    users = set()
    for fn in fx.all_fns():
        for _, e in fn.elements():
            if e['k'] == 'MemberExpr' and e.get('d') == 'graphite2::Face::m_pFileFace':
                users.add(fn.q)
            if e['k'] == 'Init' and e.get('field') == 'graphite2::Face::m_pFileFace':
                users.add(fn.q)
    allowed = {'graphite2::Face::Face', 'graphite2::Face::~Face', 'graphite2::Face::takeFileFace'}
    if users <= allowed and users:
        run.held('FILESIB', 'm_pFileFace users', '', 'only ownership: %s' % sorted(users))
    else:
        run.violated('FILESIB', 'm_pFileFace users', '', 'the library distinguishes file faces from callback faces in %s' % sorted(users - allowed))


def _handwritten_min(fn, use, x):
    """x (read at element `use`) is min(sizeof(gr_face_ops), ops.size) spelled out: a conditional expression, or a local whose
    definitions are exactly those two values, the ops.size one under `ops.size <= sizeof` and the other reaching the use only
    when that test failed"""
    from .util import reaches_avoiding
    is_size = lambda n: fn.deref(n)['k'] == 'MemberExpr' and fn.deref(n).get('d', '').endswith('gr_face_ops::size')
    is_const = lambda n: fn.strip_all_casts(n).get('v') is not None or fn.deref(n).get('v') is not None
    n = fn.strip_all_casts(x)
    if n['k'] == 'ConditionalOperator':
        a, b = n['c'][1], n['c'][2]
        if not ((is_size(a) and is_const(b)) or (is_size(b) and is_const(a))):
            return False
        pol_size = is_size(a)
        for at, p in dom.atoms(fn, fn.N(n['c'][0]), pol_size):
            f = dom.norm(fn, at, p, resolve=True)
            if ('size' in f[0] and f[1] in ('<', '<=') and dom._isint(f[2])) or ('size' in f[2] and f[1] in ('>', '>=') and dom._isint(f[0])):
                return True
        return False
    if n['k'] != 'DeclRefExpr' or n.get('vid') is None:
        return False
    vid = n['vid']
    defs = []
    for _, d in fn.elements():
        if d['k'] == 'DeclStmt':
            defs.extend((d, x_['init']) for x_ in d.get('decls', []) if x_.get('vid') == vid and x_.get('init') is not None)
        elif d['k'] == 'BinaryOperator' and d.get('op') == '=' and fn.strip_all_casts(d['c'][0])['k'] == 'DeclRefExpr' and fn.strip_all_casts(d['c'][0]).get('vid') == vid:
            defs.append((d, d['c'][1]))
    if len(defs) != 2:
        return False
    sz = [(d, r) for d, r in defs if is_size(r)]
    ct = [(d, r) for d, r in defs if is_const(r) and not is_size(r)]
    if len(sz) != 1 or len(ct) != 1:
        return False
    small = lambda f: (('size' in f[0] and f[1] in ('<', '<=') and dom._isint(f[2])) or ('size' in f[2] and f[1] in ('>', '>=') and dom._isint(f[0])))
    fs = [f[:3] for f in dom.facts_at(fn, sz[0][0]['i'])]
    if not any(small(f) for f in fs):
        return False
    # the constant definition reaches the use only around the ops.size one, i.e. when the test failed
    if reaches_avoiding(fn, ct[0][0], use, [sz[0][0]]):
        # some path avoids the ops.size assignment: it must have taken the failing edge of that very test
        sb = fn.block_of[sz[0][0]['i']]
        guards = [(c_, p_) for c_, p_ in dom.edge_guards(fn, sb)]
        return bool(guards) and fn.block_of[ct[0][0]['i']] in fn.dominators()[sb]
    return True


def opssize(run, fx):
    """gr_face_ops is a versioned struct: the client says in ops.size how much of it it filled in.  The face keeps its own copy,
    zeroed first and then filled with at most min(sizeof m_ops, ops.size) bytes; nothing else writes m_ops.  (A plain struct
    assignment reads release_table from beyond a short client struct: a callback face built from the short form then behaves
    unlike the file face of the same font.)"""
    fld = 'graphite2::Face::m_ops'
    writers = []
    for fn in fx.all_fns():
        for _, e in fn.elements():
            tgt = None
            if e['k'] in ('BinaryOperator', 'CompoundAssignOperator') and e['op'].endswith('=') and e['op'] not in ('==', '!=', '<=', '>='):
                tgt = e['c'][0]
            elif e['k'] == 'CXXOperatorCallExpr' and (e.get('fq') or '').endswith('::operator=') and e.get('args'):
                tgt = e['args'][0]
            elif e['k'] == 'Init' and e.get('field') == fld and not e.get('implicit'):
                writers.append((fn, e, 'initialiser'))
            elif e['k'] in ('CallExpr',) and (e.get('fq') or '') in ('memcpy', 'memmove', 'memset') and e.get('args'):
                d = fn.strip_all_casts(e['args'][0])
                if d['k'] == 'UnaryOperator' and d.get('op') == '&':
                    d = fn.strip_all_casts(d['c'][0])
                if d['k'] == 'MemberExpr' and d.get('d') == fld:
                    writers.append((fn, e, e['fq']))
            if tgt is not None:
                for x in fn.walk(tgt):
                    if x['k'] == 'MemberExpr' and x.get('d') == fld:
                        writers.append((fn, e, 'assignment'))
                        break
    # who writes m_ops is a structural question (the constructor alone); WHAT the constructor leaves there for a caller structure of any
    # size is decided by interpreting it (c16.opscopy_exec: prefix semantics of memset / memcpy / a whole-struct initialiser), not by the
    # spelling of the size expression
    outside = [(fn, e, kind) for fn, e, kind in writers if fn.q != 'graphite2::Face::Face']
    if outside:
        fn, e, kind = outside[0]
        run.violated('OPTFLOW', 'face ops copy', fn.loc(e), '%s writes the face\'s table callbacks (%s) outside the constructor that takes the caller\'s gr_face_ops: the size the client declared '
                     'is no longer what decides which members the face has' % (fn.q, kind))
    elif writers:
        from . import c16 as c16_
        c16_.opscopy_exec(run, fx, 'OPTFLOW')
    else:
        run.broken('OPTFLOW', 'face ops copy', 'no writer of Face::m_ops found', '')


def boxparity(run, fx):
    """whether a glyph gets a GlyphBox is decided per font in the preload path (any glyph has sub-boxes -> every glyph gets one); the
    lazy loader therefore must not make it depend on what the loader reported for this one glyph (values it received through
    out-parameters of read_glyph)"""
    fn = fx.one('graphite2::GlyphCache::glyph')
    outs = {}
    for e in calls_in(fn, 'graphite2::GlyphCache::Loader::read_glyph'):
        for a in e.get('args') or []:
            x = fn.strip_all_casts(a)
            if x['k'] == 'UnaryOperator' and x.get('op') == '&':
                y = fn.strip_all_casts(x['c'][0])
                if y['k'] == 'DeclRefExpr' and y.get('vid') is not None:
                    outs[y['vid']] = y.get('n') or fn.render(y)
    stores = []
    for _, e in fn.elements():
        if e['k'] == 'BinaryOperator' and e['op'] == '=':
            l = fn.deref(e['c'][0])         # through a reference local bound to the cell
            if l['k'] == 'ArraySubscriptExpr' and fn.strip_all_casts(l['c'][0]).get('d') == 'graphite2::GlyphCache::_boxes' and not fn.is_null(e['c'][1]):
                stores.append(e)
    if not outs or not stores:
        run.broken('LOADERSIB', 'lazy box condition', 'read_glyph out-parameters (%d) / _boxes[...] fill (%d) not found in GlyphCache::glyph' % (len(outs), len(stores)), fn.where())
        return
    for e in stores:
        dep = None
        for cond, pol in dom.edge_guards(fn, fn.block_of[e['i']]):
            for x in fn.walk(cond):
                if x['k'] == 'DeclRefExpr' and x.get('vid') in outs:
                    dep = (outs[x['vid']], fn.render(fn.strip(cond)))
        if dep:
            run.violated('LOADERSIB', 'lazy box condition', fn.loc(e), 'the lazy loader creates the GlyphBox of a glyph only under `%s`, which depends on `%s`, a value the loader '
                         'reported for this one glyph; the preload path gives every glyph a box once any glyph of the font has sub-boxes -- the same glyph has a box (slant, '
                         'bounding slant box) on a preloaded face and none on a lazy one, and collision avoidance positions it differently' % (dep[1], dep[0]))
        else:
            run.held('LOADERSIB', 'lazy box condition', fn.loc(e), 'box creation does not depend on per-glyph loader output (%s)' % sorted(outs.values()))


def boxsize(run, fx):
    """LOADERSIB, byte budget of the collision boxes: a glyph's box record is a GlyphBox header followed by TWO rectangles per sub-box
    (Loader::read_box stores `_subs[2*k + boundary]` for boundary 0, 1).  Three places must agree on that cost per sub-box, as linear forms
    with sizeof folded: the pool the preloading constructor allocates (per accumulated sub-box), the record the lazy path allocates, and
    the distance read_box advances to the next record; and read_box's store loop writes exactly that many rectangles."""
    from . import linear
    from .cfg import int_type
    ctor = [f for f in fx.fns_named('graphite2::GlyphCache::GlyphCache') if not f.f.get('implicit')][0]
    lazy = fx.one('graphite2::GlyphCache::glyph')
    rb = fx.one('graphite2::GlyphCache::Loader::read_box')
    inst = 'box records: two rectangles per sub-box at every site'

    def alloc_form(fn):
        out = []
        for e in calls_in(fn):
            if (e.get('fq') or '').startswith('graphite2::gralloc') and e.get('args'):
                t, c = linear.lin(fn, e['args'][0], through_unsigned=True)
                if any('numsubs' in k_ or 'num' in k_.lower() for k_ in t) and c >= 0:
                    out.append((e, t, c))
        return out
    rect = 16
    hdr = None
    rec = fx.raw['records'].get('graphite2::GlyphBox')
    probs, seen = [], []
    for fn, what in ((ctor, 'preload pool'), (lazy, 'lazy record')):
        forms = alloc_form(fn)
        subs = [(e, t, c) for e, t, c in forms if any('numsubs' in k_ for k_ in t)]
        if len(subs) != 1:
            run.broken('LOADERSIB', inst, '%s: expected one gralloc sized by the sub-box count in %s, found %d' % (what, fn.q, len(subs)), fn.where())
            return
        e, t, c = subs[0]
        coef = [v for k_, v in t.items() if 'numsubs' in k_]
        seen.append((what, coef[0], fn.loc(e)))
    # read_box: the store loop `i < K * <count>`, one Rect per iteration through addSubBox; then the advance to the next record
    loopk, atom = None, None
    for b in rb.blocks:
        c_ = rb.term_cond(b)
        if c_ is None:
            continue
        c_ = rb.strip_all_casts(c_)
        if c_['k'] == 'BinaryOperator' and c_['op'] == '<':
            t, c0 = linear.lin(rb, c_['c'][1], through_unsigned=True)
            if len(t) == 1 and c0 == 0 and any((x.get('fq') or '').endswith('GlyphBox::addSubBox') for b2 in rb.reachable_from(b) for x in rb.blocks[b2]['el']):
                atom, loopk = list(t.items())[0]
    if loopk is None:
        run.broken('LOADERSIB', inst, 'read_box: the loop that stores the sub-box rectangles (i < k * count) was not recognised', rb.where())
        return
    adv = None
    for _, e in rb.elements():
        if e['k'] == 'ReturnStmt' and e.get('c') and not rb.is_null(e['c'][0]):
            t, c = linear.lin(rb, rb.strip_all_casts(e['c'][0]), through_unsigned=True)
            if atom in t:
                adv = (t[atom], c, rb.loc(e))
    if adv is None:
        run.broken('LOADERSIB', inst, 'read_box: the pointer to the next record (curr + header + per-sub-box bytes) was not recognised', rb.where())
        return
    seen.append(('read_box advance', adv[0], adv[2]))
    want = loopk * rect
    bad = [(w, c_, loc) for w, c_, loc in seen if c_ != want]
    if bad:
        w, c_, loc = bad[0]
        run.violated('LOADERSIB', inst, loc, 'read_box stores %d rectangles (%d bytes) per sub-box, but the %s counts %d bytes per sub-box: %s'
                     % (loopk, want, w, c_, 'the records overlap / overflow their allocation' if c_ < want else 'the sites disagree on the record layout'))
    else:
        run.held('LOADERSIB', inst, rb.where(), '%d bytes per sub-box (%d rectangles) in the preload pool, the lazy record and the advance of read_box' % (want, loopk))


def boxcount(run, fx):
    """LOADERSIB, the count side of the box pool: the number multiplied into the preload pool's size is the sum of the sub-box counts of
    EVERY glyph read_glyph was called for (glyph 0 is read by a separate call ahead of the loop).  Either read_glyph adds to its
    out-parameter and every call passes the address of the total, or it stores the glyph's own count and every call is followed by an
    addition to the total before the next call and before the allocation."""
    from .util import reaches_avoiding
    ctor = [f for f in fx.fns_named('graphite2::GlyphCache::GlyphCache') if not f.f.get('implicit')][0]
    rg = fx.one('graphite2::GlyphCache::Loader::read_glyph')
    inst = 'the pool counts the sub-boxes of every preloaded glyph'
    pool = None
    for e in calls_in(ctor):
        if (e.get('fq') or '').startswith('graphite2::gralloc') and e.get('args'):
            nodes = list(ctor.walk(e['args'][0]))
            for x in list(nodes):          # a size computed into a const local first
                if x['k'] == 'DeclRefExpr' and x.get('vid') in ctor.const_init:
                    nodes += list(ctor.walk(ctor.const_init[x['vid']]))
            from .cfg import int_type as _it
            refs = [x for x in nodes if x['k'] == 'DeclRefExpr' and x.get('vid') is not None and _it((x.get('t') or '').replace('const ', '')) and x.get('pi') is None
                    and x.get('dk') == 'Var' and not (x.get('d') or '').startswith('graphite2::')]
            refs = [x for x in refs if x.get('vid') not in ctor.const_init] or refs           # not the const local the size was computed into first
            if refs:
                pool = (e, refs[0]['vid'], ctor.render(refs[0]))
    calls = calls_in(ctor, 'graphite2::GlyphCache::Loader::read_glyph')
    from .cfg import int_type as _it2
    pidx = [k for k, p_ in enumerate(rg.f['params']) if p_['t'].rstrip().endswith('*') and _it2(p_['t'].rstrip()[:-1].strip().replace('const ', ''))]
    if pool is None or len(calls) < 2 or len(pidx) != 1:
        run.broken('LOADERSIB', inst, 'preload pool allocation / read_glyph calls / count out-parameter not recognised (%s, %d calls)' % (pool is not None, len(calls)), ctor.where())
        return
    pi = pidx[0]
    stores = []
    for _, e in rg.elements():
        if e['k'] in ('BinaryOperator', 'CompoundAssignOperator') and e.get('op') in ('=', '+='):
            t = rg.strip_all_casts(rg.N(e['c'][0]))
            if t['k'] == 'UnaryOperator' and t.get('op') == '*':
                b_ = rg.strip_all_casts(rg.N(t['c'][0]))
                if b_['k'] == 'DeclRefExpr' and b_.get('pi') == pi:
                    stores.append(e)
    if not stores:
        run.broken('LOADERSIB', inst, 'read_glyph no longer stores through its count parameter', rg.where())
        return
    accum = all(e['op'] == '+=' for e in stores)
    pe, V, vname = pool
    # the total runs over every glyph of the font (up to 65535 glyphs, up to 16 sub-boxes each): it needs more than 16 bits
    vt = [x.get('t') for x in ctor.walk(pe['args'][0]) if x['k'] == 'DeclRefExpr' and x.get('vid') == V]
    for d_ in [d for _, d in ctor.elements() if d['k'] == 'DeclStmt']:
        for x in d_.get('decls', []):
            if x.get('vid') == V:
                vt = [x.get('t')]
    wt = _it2((vt[0] if vt else '').replace('const ', ''))
    if wt and wt[0] < 32:
        run.violated('LOADERSIB', inst, ctor.loc(pe), 'the sub-box total `%s` that sizes the preload pool is a %d-bit `%s`: a font with more than 65535 sub-boxes in all (4096 glyphs with 16 each) wraps it, the pool '
                     'is too small for what read_box writes (or, at exactly 65536, no box is read at all), while a lazily loading face counts per glyph and is unaffected' % (vname, wt[0], vt[0]))
        return

    def target(e):
        a = ctor.strip_all_casts(ctor.N(e['args'][pi]))
        if a['k'] == 'UnaryOperator' and a.get('op') == '&':
            a = ctor.strip_all_casts(ctor.N(a['c'][0]))
            if a['k'] == 'DeclRefExpr':
                return a.get('vid'), ctor.render(a)
        return None, ctor.render(a)
    bad = None
    for e in calls:
        tv, tn = target(e)
        if accum:
            if tv != V:
                bad = (e, 'read_glyph adds each glyph\'s sub-box count to its out-parameter, but this call passes `%s`, not the total `%s` the pool is sized by' % (tn, vname))
        else:
            if tv is None:
                bad = (e, 'count argument `%s` is not the address of a local' % tn)
            elif tv == V:
                bad = (e, 'read_glyph overwrites its out-parameter with one glyph\'s count, and this call passes the total `%s` itself: the counts of the glyphs read before are lost' % vname)
            else:
                adds = [x for _, x in ctor.elements() if x['k'] == 'CompoundAssignOperator' and x.get('op') == '+=' and ctor.strip_all_casts(ctor.N(x['c'][0])).get('vid') == V
                        and any(w.get('vid') == tv for w in ctor.walk(x['c'][1]))]
                for tgt in calls + [pe]:
                    if reaches_avoiding(ctor, e, tgt, avoid=adds):
                        bad = (e, 'read_glyph stores one glyph\'s sub-box count in `%s`; from this call control reaches %s without `%s += %s`: the glyph\'s sub-boxes are missing from the pool size, '
                               'and read_box writes its record past the end of the pool' % (tn, 'the next read_glyph call' if tgt is not pe else 'the pool allocation', vname, tn))
                        break
        if bad:
            break
    if bad:
        run.violated('LOADERSIB', inst, ctor.loc(bad[0]), bad[1])
    else:
        run.held('LOADERSIB', inst, ctor.loc(pe), '%d read_glyph calls, %s contract, total `%s`' % (len(calls), 'accumulating' if accum else 'per-glyph', vname))


MUTABLE_OK = {
    'graphite2::Face': 'lazily created parts of the face (glyph cache, cmap, name table, logger), each behind its own rule (C08 LAZYFILL, C09 NAMEPRELOAD)',
    'graphite2::Face::Table': 'the buffer pointer a const Table hands over when it is moved from (C16 TABLETS)',
    'graphite2::vm::Machine::Code': 'load status / ownership flag of a code object, set while it is built',
}


def nomutable(run, fx):
    """LOADERSIB: preloading calls the glyph loader in a different ORDER than lazy loading (all glyphs, then all boxes, against glyph and
    box alternating), so a loader call must not remember anything from the call before it: no class of the library outside the tabled
    ones has a `mutable` member (the table lists the three classes that have one today, each with the rule that covers it).  A
    `mutable` cursor in GlyphCache::Loader makes every preloaded glyph get the last glyph's box."""
    n, bad = 0, []
    for k, r in sorted(fx.raw['records'].items()):
        if not (r.get('file') or '').startswith('src/') or '_utf_iterator' in k:
            continue
        n += 1
        m = [f['n'] for f in r['fields'] if f.get('mut')]
        if m and k not in MUTABLE_OK:
            bad.append((k, m, r))
    inst = 'no class outside the tabled ones has a mutable member'
    if n < 60:
        run.broken('LOADERSIB', inst, 'only %d library classes seen' % n)
    elif bad:
        k, m, r = bad[0]
        run.violated('LOADERSIB', inst, '%s:%s' % (r.get('file'), r.get('ln')), '%s has the mutable member(s) %s: a const member function can now carry state from one call to the next, so results '
                     'depend on the order of the calls -- which differs between the face options (preloaded / lazy glyphs, cached / direct cmap)' % (k, m))
    else:
        run.held('LOADERSIB', inst, '', '%d classes; mutable members only in %s' % (n, sorted(MUTABLE_OK)))


def boxall(run, fx):
    """LOADERSIB: a preloaded face has the collision box of EVERY glyph the lazy loader would read, glyph 0 (.notdef) included: the loop
    of the preloading constructor that stores `_boxes[gid]` starts at 0 (the glyph loop above it starts at 1 only because glyph 0 is
    read by a separate call), counts up by one and ends at _num_glyphs."""
    ctor = [f for f in fx.fns_named('graphite2::GlyphCache::GlyphCache') if not f.f.get('implicit')][0]
    inst = 'the preload box loop starts at glyph 0'
    st = [e for _, e in ctor.elements() if e['k'] == 'BinaryOperator' and e['op'] == '=' and ctor.strip(e['c'][0])['k'] == 'ArraySubscriptExpr'
          and ctor.strip_all_casts(ctor.N(ctor.strip(e['c'][0])['c'][0])).get('d', '').endswith('GlyphCache::_boxes') and not ctor.is_null(e['c'][1])]
    if len(st) != 1:
        run.broken('LOADERSIB', inst, 'expected one store `_boxes[gid] = ..` in the preloading constructor, found %d' % len(st), ctor.where())
        return
    idx = ctor.strip_all_casts(ctor.N(ctor.strip(st[0]['c'][0])['c'][1]))
    if idx['k'] != 'DeclRefExpr' or idx.get('vid') is None:
        run.broken('LOADERSIB', inst, 'the loop variable indexing _boxes was not recognised', ctor.loc(st[0]))
        return
    # the definitions of the index that reach the store from outside its loop (the variable may be shared with the glyph loop above)
    from .util import reaches_avoiding
    defs = []
    for _, d in ctor.elements():
        if d['k'] == 'DeclStmt':
            defs += [(d, x['init']) for x in d.get('decls', []) if x.get('vid') == idx['vid'] and x.get('init') is not None]
        elif d['k'] == 'BinaryOperator' and d['op'] == '=' and ctor.strip_all_casts(ctor.N(d['c'][0])).get('vid') == idx['vid']:
            defs.append((d, d['c'][1]))
    reaching = [(d, i_) for d, i_ in defs if reaches_avoiding(ctor, d, st[0], avoid=[x for x, _ in defs if x is not d])]
    vals = {ctor.strip_all_casts(ctor.N(i_)).get('v') for _, i_ in reaching}
    if not reaching or None in vals and len(vals) == 1:
        run.broken('LOADERSIB', inst, 'the start value of the loop variable indexing _boxes was not recognised', ctor.loc(st[0]))
        return
    v0 = 0 if vals == {0} else sorted(v for v in vals if v != 0 and v is not None)[0] if any(v not in (0, None) for v in vals) else None
    steps = [e for _, e in ctor.elements() if e['k'] == 'UnaryOperator' and e.get('op') in ('pre++', 'post++', 'pre--', 'post--') and ctor.strip_all_casts(ctor.N(e['c'][0])).get('vid') == idx['vid']]
    if v0 == 0 and steps and all(e['op'].endswith('++') for e in steps):
        run.held('LOADERSIB', inst, ctor.loc(st[0]), '%s starts at 0 and only counts up' % ctor.render(idx))
    else:
        run.violated('LOADERSIB', inst, ctor.loc(st[0]), 'the loop that reads the collision boxes of a preloaded face starts at glyph %s: _boxes[0..%s) stays null while a face without '
                     'gr_face_preloadGlyphs reads those boxes on demand -- collision avoidance and kerning against .notdef differ between the two' % (v0, v0))


def attrcap(run, fx):
    """LOADERSIB, the acceptance bound both loaders share: attribute ids run 0.._num_attrs-1, so a well-formed glyph may carry up to
    _num_attrs non-zero attributes.  read_glyph (called by the preloading constructor, where a null result fails the whole face, and by
    the lazy path, where it yields an empty glyph) accepts a glyph on the fact  capacity() <= _num_attrs  -- compared as linear forms,
    so `!(cap > n)`, `n >= cap`, `cap < n + 1` all read the same.  A stronger fact (`cap < n`) rejects a glyph that uses every declared
    attribute: the face then loads or not depending on gr_face_preloadGlyphs; a weaker one accepts more attributes than declared."""
    from . import linear
    fn = fx.one('graphite2::GlyphCache::Loader::read_glyph')
    inst = 'a glyph with exactly _num_attrs attributes is accepted'
    seen = []
    for b in fn.blocks:
        succ = fn.blocks[b]['succ']
        cnd = fn.term_cond(b)
        if len(succ) != 2 or succ[0] == succ[1] or cnd is None:
            continue
        for idx, pol in ((0, True), (1, False)):
            for at, p in dom.atoms(fn, cnd, pol):
                for t, c in linear.lower_bounds(fn, at, p):
                    cap = [k for k in t if 'capacity()' in k]
                    num = [k for k in t if k.endswith('_num_attrs')]
                    if len(cap) == 1 and len(num) == 1 and len(t) == 2 and t[cap[0]] == -1 and t[num[0]] == 1:
                        seen.append((c, fn.render(fn.strip(at)), fn.loc(at), p))
    if not seen:
        run.broken('LOADERSIB', inst, 'read_glyph has no branch on which the attribute count of the glyph (sparse::capacity()) is known to be at most _num_attrs', fn.where())
        return
    c, txt, loc, p = min(seen)
    if c < 0:
        run.violated('LOADERSIB', inst, loc, 'read_glyph accepts a glyph only when capacity() <= _num_attrs - %d (`%s` %s): a glyph that uses all %s declared attribute ids is '
                     'rejected -- with gr_face_preloadGlyphs the face fails to load, without it the glyph silently becomes empty, so the face options change results' % (-c, txt, 'holds' if p else 'fails', '_num_attrs'))
    else:
        run.held('LOADERSIB', inst, loc, 'accepted on `%s` %s: capacity() <= _num_attrs%s' % (txt, 'true' if p else 'false', ' + %d (more than declared: not this property\'s concern)' % c if c else ' exactly'))


def fileexact(run, fx):
    """FILESIB: a file face hands the library the same bytes a callback face over the same file would: FileFace::get_table_fn reads
    exactly the table's directory length -- the value the bounds test against the file size covers -- no more (padding that is not
    there makes fread come up short and the table "missing") and no less.  As linear forms: the byte count of the fread, the count it is
    compared with, the size of the buffer and the length reported through *len are all the length GetTableInfo returned."""
    from . import linear
    inst = 'the file face reads exactly the directory length of a table'
    if not fx.fns_named('graphite2::FileFace::get_table_fn'):
        run.held('FILESIB', inst, '', 'no file faces in this configuration (GRAPHITE2_NFILEFACE)', False)
        return
    fn = fx.one('graphite2::FileFace::get_table_fn')
    gi = calls_in(fn, 'graphite2::TtfUtil::GetTableInfo')
    fr = [e for _, e in fn.elements() if e['k'] == 'CallExpr' and (e.get('fq') or '') == 'fread']
    ma = [e for _, e in fn.elements() if e['k'] == 'CallExpr' and (e.get('fq') or '') in ('malloc', 'graphite2::gralloc')]
    if len(gi) != 1 or len(fr) != 1 or not ma:
        run.broken('FILESIB', inst, 'GetTableInfo / fread / malloc calls of get_table_fn not recognised (%d, %d, %d)' % (len(gi), len(fr), len(ma)), fn.where())
        return
    lenarg = fn.strip_all_casts(fn.N(gi[0]['args'][-1]))
    if lenarg['k'] != 'DeclRefExpr':
        run.broken('FILESIB', inst, 'the length out-argument of GetTableInfo is not a local', fn.loc(gi[0]))
        return
    L = ({fn.render(lenarg): 1}, 0)

    def form(x):
        t, c = linear.lin(fn, x, through_unsigned=True)
        return (dict(t), c)
    a = fr[0]['args']
    size_, n_ = form(a[1]), form(a[2])
    count = n_ if size_ == ({}, 1) else size_ if n_ == ({}, 1) else None
    probs = []
    if count != L:
        probs.append('fread is asked for `%s` x `%s` bytes' % (fn.render(fn.N(a[1])), fn.render(fn.N(a[2]))))
    if form(ma[0]['args'][0]) != L:
        probs.append('the buffer has `%s` bytes' % fn.render(fn.N(ma[0]['args'][0])))
    # the comparison of fread's result
    par = fn.parents()
    cmpn = None
    cur = fr[0]['i']
    for _ in range(4):
        ups = par.get(cur) or []
        if not ups:
            break
        p_ = fn.nodes[ups[0]]
        if p_['k'] == 'BinaryOperator' and p_.get('op') in ('!=', '==', '<'):
            cmpn = p_
            break
        cur = p_['i']
    if cmpn is None:
        probs.append('the result of fread is not compared with the length')
    else:
        other = [c_ for c_ in cmpn['c'] if not any(x is fr[0] or (isinstance(x, dict) and x.get('i') == fr[0]['i']) for x in fn.walk(c_))]
        if not other or form(other[0]) != L:
            probs.append('the result of fread is compared with `%s`' % (fn.render(fn.N(other[0])) if other else '?'))
    if probs:
        run.violated('FILESIB', inst, fn.loc(fr[0]), 'FileFace::get_table_fn: %s, not the length `%s` that GetTableInfo returned and the test against the file size covers: a table that ends the file '
                     'without padding is reported missing by a file face, while a callback face over the same bytes has it' % ('; '.join(probs), fn.render(lenarg)))
    else:
        run.held('FILESIB', inst, fn.loc(fr[0]), 'buffer, fread count and comparison are all `%s`' % fn.render(lenarg))


def boxguard(run, fx):
    """LOADERSIB: the lazy loader reads a glyph's collision box whenever the face has boxes (`_boxes`); so does the preloading
    constructor -- its box loop is not guarded by the NUMBER of sub-boxes it counted (a font whose glyphs have a bounding octabox and
    no sub-boxes has zero of them and still has boxes: defect F25).  No fact that dominates the constructor's read_box call mentions the
    variable the read_glyph calls count sub-boxes into."""
    ctor = [f for f in fx.fns_named('graphite2::GlyphCache::GlyphCache') if not f.f.get('implicit')][0]
    inst = 'the preloading constructor reads the boxes whatever the number of sub-boxes'
    rb = calls_in(ctor, 'graphite2::GlyphCache::Loader::read_box')
    rg = calls_in(ctor, 'graphite2::GlyphCache::Loader::read_glyph')
    if not rb or not rg:
        run.broken('LOADERSIB', inst, 'read_box / read_glyph calls of the preloading constructor not found', ctor.where())
        return
    cnt = set()
    for e in rg:
        for a in e.get('args') or []:
            x = ctor.strip_all_casts(ctor.N(a)) if a is not None else {}
            if x.get('k') == 'UnaryOperator' and x.get('op') == '&':
                y = ctor.strip_all_casts(ctor.N(x['c'][0]))
                if y['k'] == 'DeclRefExpr':
                    cnt.add(ctor.render(y))
    bad = [f for f in dom.facts_at(ctor, rb[0]['i']) if any(c_ in (f[0], f[2]) or (c_ + ' ') in f[0] + ' ' or ('(' + c_) in f[0] for c_ in cnt)]
    if bad:
        run.violated('LOADERSIB', inst, ctor.loc(rb[0]), 'the preloading constructor reads the collision boxes only when `%s %s %s` (the sub-box count of all glyphs): a font whose glyphs have a bounding '
                     'octabox and no sub-boxes gets no boxes with gr_face_preloadGlyphs, while a lazily loading face reads each glyph\'s box on demand -- collision avoidance positions differ' % bad[0][:3])
    else:
        run.held('LOADERSIB', inst, ctor.loc(rb[0]), 'guards of the box loop: %s' % sorted({f[0] for f in dom.facts_at(ctor, rb[0]['i'])}))


def run(run):
    fx = run.facts('Q0')
    opssize(run, fx)
    boxparity(run, fx)
    optflow(run, fx)
    optentry(run, fx)
    loadersib(run, fx)
    try:
        boxsize(run, fx)
        boxcount(run, fx)
        boxall(run, fx)
        boxguard(run, fx)
        nomutable(run, fx)
        attrcap(run, fx)
    except AnalysisBroken as ex:
        run.broken('LOADERSIB', 'box records: two rectangles per sub-box at every site', str(ex))
    from .util import share as _share
    if not getattr(run, '_sharing', False):
        run._sharing = True
        try:
            _share(run, 'c16', ['TABLETS'], 'FILESIB')        # a table is handed back exactly once on either kind of face (file faces free it, callback faces may not) (shared with C16)
        finally:
            run._sharing = False
    lazyaccess(run, fx)
    filesib(run, fx)
    fileexact(run, fx)
    c13.selectors(run, fx)
    c13.planeroute(run, fx)
    c13.agree(run, fx)
    c13.segsearch(run, fx)       # the direct cmap searches without a range hint, the cached one with: both must find the same segment
    c13.cmapbound(run, fx)
