"""C03 -- every returned segment exposes a well-formed glyph stream.

  LINKSYM      symbolic link-heap execution of every stream mutator: on every complete path the links written are
               symmetric (next/prev), head/tail pointers accompany null links, nothing points at an off-stream slot
  NEWSLOTCLEAN Segment::newSlot returns slots with null links (the pre-condition LINKSYM gives fresh slots)
  MUTATORS     who may write the stream links (who-may-call on the setters / fields)
  GROWTH       (shared with C02) extendLength accounting: gr_seg_n_slots equals the number of linked slots
  INDEX        indices are assigned on one traversal of the stream by associateChars, which runs between the
               substitution and positioning runs; no other writer of Slot::m_index
  NOMUTPOS     the bytecode loader rejects INSERT / DELETE in positioning and justification passes; pass types are
               ordered and assigned from the pass index as the rejection assumes
  GIDCLAMP     the pseudo-glyph's real glyph id is compared with numGlyphs() and reset on every path

Finiteness of positions (floats) and glyph-id validity beyond the clamp (font data) are NOT decided.
"""
from . import dom
from . import vmrules as R
from . import c02
from .facts import AnalysisBroken
from .linksym import LinkSym, show
from .util import callers_of, calls_in, field_writes, find_decl

LEVEL = 'other'
EXPLANATION = ('Shape rules decided by symbolic execution of the link-manipulating functions over an abstract heap of '
               '{next, prev, first, last}: each complete control path of appendSlot, INSERT, DELETE, PUT_COPY, TEMP_COPY and '
               'reverseSlots (loops unrolled) is checked to leave every link it wrote symmetric and the head/tail pointers '
               'consistent, assuming a well-formed pre-state (an inductive preservation argument per mutator); plus who-may-write '
               'on the link fields, slot-count accounting, single-traversal index assignment ordered between the substitution and '
               'positioning runs, loader rejection of list mutators after indexing, and the real-glyph clamp.  Position '
               'finiteness and data-dependent glyph ids are not decided.')
FLOORS = {'LINKSYM': 6, 'NEWSLOTCLEAN': 3, 'MUTATORS': 4, 'GROWTH': 9, 'INDEX': 5, 'NOMUTPOS': 4, 'GIDCLAMP': 2}

STREAM_MUTATORS = {
    'graphite2::Segment::appendSlot': 'appends one slot per character',
    'graphite2::Segment::newSlot': 'free-list only (fresh block chaining; the slot is not in the stream)',
    'graphite2::Segment::freeSlot': 'free-list push after re-construction; head/tail fix-ups are defensive and overwritten by justify\'s RESTORE',
    'graphite2::Segment::reverseSlots': 'relinks the whole list',
    'graphite2::Segment::addLineEnd': 'justification sentinel (C19 UNDO rule)',
    'graphite2::Segment::delLineEnd': 'justification sentinel removal (C19 UNDO rule)',
    '(anonymous namespace)::insert': 'INSERT opcode',
    '(anonymous namespace)::delete_': 'DELETE opcode',
    '(anonymous namespace)::put_copy': 'PUT_COPY opcode restores the links saved before the whole-slot copy',
    '(anonymous namespace)::direct_run': 'the same opcodes in the direct-threaded driver',
    'gr_slot_linebreak_before': 'line cut (C19)',
}
HEADTAIL_WRITERS = {'graphite2::Segment::Segment', 'graphite2::Segment::appendSlot', 'graphite2::Segment::first', 'graphite2::Segment::last',
                    'graphite2::Segment::freeSlot', 'graphite2::Segment::justify', 'graphite2::Segment::reverseSlots'}


def linksym_fn(run, rule, fn, this_kind, inst, rules=('R1', 'R2', 'R3', 'R4', 'R5', 'R6'), offstream_fresh=False, max_paths=None, cursor=(), max_visits=2):
    try:
        ls = LinkSym(fn, this_kind)
        ls.max_visits = max_visits
        ls.cursor = tuple(cursor)
        paths = ls.run()
    except AnalysisBroken as e:
        run.broken(rule, inst, str(e), fn.where())
        return None
    if not paths:
        run.broken(rule, inst, 'no complete path enumerated', fn.where())
        return None
    bad = []
    nwrites = 0
    for st in paths:
        if offstream_fresh:
            for (o, f) in list(st.heap):
                if o[0] == 'fresh':
                    st.off.add(o)
        nwrites += len(st.order)
        v = ls.check_path(st, rules, maybe_deleted=cursor)
        if v:
            bad.append((st, v))
    if bad:
        st, v = bad[0]
        r, obj, field, val, loc, text = v[0]
        run.violated(rule, inst, loc, '%s leaves the glyph stream ill-formed on %d of %d control paths (%s): %s'
                     % (fn.q.split('::')[-1], len(bad), len(paths), r, text),
                     {'writes_on_path': ['%s.%s = %s @%s' % (show(o), f, show(x), l.split(':')[-1]) for o, f, x, l in st.order],
                      'path_facts': {show(k): ('null' if vv else 'non-null') for k, vv in list(st.null.items())[:12]}})
    else:
        run.held(rule, inst, fn.where(), '%d complete paths, %d link writes, all symmetric (R1-R7)' % (len(paths), nwrites))
    return paths


def linksym(run, vm):
    fx = vm.fx
    linksym_fn(run, 'LINKSYM', fx.one('graphite2::Segment::appendSlot'), 'seg', 'appendSlot')
    # the rule cursor `is` may rest on a slot a previous DELETE removed from the stream (R7)
    cur = (('init', ('sym', 'reg'), 'is'),)
    linksym_fn(run, 'LINKSYM', vm.handlers['insert'], None, 'INSERT', cursor=cur)
    linksym_fn(run, 'LINKSYM', vm.handlers['delete_'], None, 'DELETE', cursor=cur)
    linksym_fn(run, 'LINKSYM', vm.handlers['put_copy'], None, 'PUT_COPY', cursor=cur)
    linksym_fn(run, 'LINKSYM', fx.one('graphite2::Segment::reverseSlots'), 'seg', 'reverseSlots', rules=('R1', 'R2', 'R3', 'R4', 'R5', 'R6', 'R8', 'R9'), max_visits=6)
    from .c04 import put_copy_links
    put_copy_links(run, vm, 'LINKSYM')        # identity of the overwritten live slot (links, deleted/copied flags) is put back on every path
    # TEMP_COPY: the copy is off-stream (lives only in the slot map, marked copied); no stream slot may point to it
    tc = vm.handlers['temp_copy']
    ls = LinkSym(tc, None)
    paths = ls.run()
    bad = None
    for st in paths:
        for (o, f), v in st.heap.items():
            if o[0] != 'fresh' and isinstance(v, tuple) and v[0] == 'fresh':
                bad = (o, f, v)
    marks = [e for e in calls_in(tc, 'graphite2::Slot::markCopied') if tc.strip_all_casts(e['args'][0]).get('v') == 1]
    if bad:
        run.violated('LINKSYM', 'TEMP_COPY', tc.where(), 'TEMP_COPY links its scratch copy into the stream: %s.%s = %s' % (show(bad[0]), bad[1], show(bad[2])))
    elif not marks:
        run.violated('LINKSYM', 'TEMP_COPY', tc.where(), 'the scratch copy is no longer marked with markCopied(true) (attach-to-copy would not be refused)')
    else:
        run.held('LINKSYM', 'TEMP_COPY', tc.where(), 'copy stays off-stream and is marked copied (%d paths)' % len(paths))


def newslotclean(run, fx):
    ns = fx.one('graphite2::Segment::newSlot')
    rets = [e for _, e in ns.elements() if e['k'] == 'ReturnStmt' and not ns.is_null(e['c'][0])]
    if len(rets) < 2:
        raise AnalysisBroken('Segment::newSlot: expected two non-null returns, found %d' % len(rets))
    nexts = [e for e in calls_in(ns, 'graphite2::Slot::next') if e.get('args')]
    for r in rets:
        v = ns.render(ns.strip_all_casts(r['c'][0]))
        rb = ns.block_of[r['i']]
        domt = ns.dominators()
        # last write of <v>.next / <v>[0].next dominating the return must store NULL
        cands = [e for e in nexts if ns.render(ns.N(e['obj'])).replace('[0]', '') in (v, '*' + v) or ns.render(ns.N(e['obj'])) == v + '[0]']
        cands = [e for e in cands if ns.block_of[e['i']] in domt[rb]]
        inst = 'newSlot returns %s' % v
        ok = False
        if cands:
            # order by dominance depth then position: take the one closest to the return
            cands.sort(key=lambda e: (len(domt[ns.block_of[e['i']]]), ns.pos_of[e['i']]))
            last = cands[-1]
            a = ns.strip_all_casts(last['args'][0])
            ok = a.get('v') == 0 or a['k'] in ('CXXNullPtrLiteralExpr', 'GNUNullExpr')
        if ok:
            run.held('NEWSLOTCLEAN', inst, ns.loc(r), '%s.next = NULL dominates the return' % v)
        else:
            run.violated('NEWSLOTCLEAN', inst, ns.loc(r), 'Segment::newSlot returns `%s` whose next link still points into the free list: the caller '
                         'links a slot whose next is garbage into the stream' % v)
    slot_ctor_clean(run, fx, 'NEWSLOTCLEAN')
    charinfo_ctor(run, fx, 'NEWSLOTCLEAN')


def slot_ctor_clean(run, fx, rule):
    """Segment::freeSlot recycles a slot by constructing a fresh Slot over it (placement new) and newSlot hands it out again: the
    constructor is what guarantees that a recycled slot carries nothing of its previous life.  Every data member must be
    initialised by the constructor; every pointer member to null (or to the constructor's own parameter)."""
    ctor = [f for f in fx.fns_named('graphite2::Slot::Slot') if not f.f.get('implicit') and not f.f.get('copyctor')]
    if len(ctor) != 1:
        raise AnalysisBroken('expected one user-written Slot constructor, found %d' % len(ctor))
    f = ctor[0]
    rec = fx.record('graphite2::Slot')
    inits = {}
    for _, e in f.elements():
        if e['k'] == 'Init' and e.get('field'):
            inits[e['field'].split('::')[-1]] = e
    # members assigned in the body count as initialised too
    for _, e in f.elements():
        if e['k'] == 'BinaryOperator' and e['op'] == '=':
            l = f.strip(e['c'][0])
            if l['k'] == 'MemberExpr' and l.get('dk') == 'Field' and f.render(f.N(l['c'][0])) == 'this':
                n_ = l['d'].split('::')[-1]
                old = inits.get(n_)
                if old is None or (old['k'] == 'Init' and (old.get('implicit') or old.get('init') is None)):
                    inits[n_] = e
    pvids = {p_['vid'] for p_ in f.f.get('params') or []}
    missing, notnull = [], []
    for fld in rec['fields']:
        n = fld['n']
        if fld.get('static'):
            continue
        e = inits.get(n)
        if e is None or (e['k'] == 'Init' and e.get('implicit') and e.get('init') is None and '*' in (fld.get('t') or '')):
            missing.append(n)
            continue
        if '*' in (fld.get('t') or ''):
            iv = f.strip_all_casts(f.N(e['init'])) if e['k'] == 'Init' and e.get('init') is not None else (f.strip_all_casts(e['c'][1]) if e['k'] == 'BinaryOperator' else None)
            while iv is not None and iv['k'] == 'BinaryOperator' and iv.get('op') == '=':      # a = b = NULL
                iv = f.strip_all_casts(iv['c'][1])
            if iv is None:
                missing.append(n)
            elif not (iv.get('v') == 0 or iv['k'] in ('CXXNullPtrLiteralExpr', 'GNUNullExpr') or (iv['k'] == 'DeclRefExpr' and iv.get('vid') in pvids)):
                notnull.append(n)
    links = [n for n in ('m_next', 'm_prev', 'm_parent', 'm_child', 'm_sibling') if n in missing + notnull]
    if not any(fl['n'] == 'm_next' for fl in rec['fields']):
        raise AnalysisBroken('Slot::m_next vanished')
    if missing or notnull:
        run.violated(rule, 'Slot constructor', f.where(), 'Slot\'s constructor leaves member(s) %s uninitialised%s: Segment::freeSlot re-constructs a slot to wipe it, so a recycled '
                     'slot keeps these from its previous life%s' % (missing, (' and sets pointer member(s) %s to something other than null' % notnull) if notnull else '',
                                                                   (' -- stream / attachment links %s' % links) if links else ''))
    else:
        run.held(rule, 'Slot constructor', f.where(), 'all %d data members initialised; pointer members null or taken from the constructor parameter' % len(rec['fields']), False)


def charinfo_ctor(run, fx, rule):
    """the char-info array comes from `new CharInfo[n]` (operator new is malloc here), and Segment::appendSlot assigns only some of the
    members; the others -- the flags behind gr_slatSegSplit, the break weight -- are only ever or-ed into or read.  So the default
    constructor is what makes them defined: it initialises every data member (history independence, and "finite / defined" values of
    what the API reports)."""
    ctor = [f for f in fx.fns_named('graphite2::CharInfo::CharInfo') if not f.f.get('implicit') and not (f.f.get('params') or [])]
    inst = 'CharInfo constructor initialises every member'
    if len(ctor) != 1:
        run.broken(rule, inst, 'expected one user-written default constructor of CharInfo, found %d' % len(ctor))
        return
    f = ctor[0]
    rec = fx.record('graphite2::CharInfo')
    done = set()
    for _, e in f.elements():
        if e['k'] == 'Init' and e.get('field') and not (e.get('implicit') and e.get('init') is None):
            done.add(e['field'].split('::')[-1])
        if e['k'] == 'BinaryOperator' and e['op'] == '=':
            l = f.strip(e['c'][0])
            if l['k'] == 'MemberExpr' and l.get('dk') == 'Field':
                done.add(l['d'].split('::')[-1])
    missing = [fl['n'] for fl in rec['fields'] if not fl.get('static') and fl['n'] not in done]
    if missing:
        run.violated(rule, inst, f.where(), 'CharInfo\'s constructor leaves %s as malloc returned them: what gr_slot_attr(.., gr_slatSegSplit) / the break weight report for a fresh segment '
                     'depends on what the heap block held before -- on the history of earlier calls' % missing)
    else:
        run.held(rule, inst, f.where(), 'all %d data members initialised' % len(rec['fields']))


def freedslot(run, fx, rule):
    """no use after Segment::freeSlot(x): freeSlot unlinks the slot, re-constructs it and threads it on the free list, so its links no
    longer describe the stream.  After each call freeSlot(x) with x a variable, no path reaches a dereference of x before x is
    re-defined (comparing the pointer value is fine)."""
    from .util import reaches_avoiding
    n = 0
    for fn, e in callers_of(fx, 'graphite2::Segment::freeSlot'):
        a = fn.strip_all_casts(e['args'][0]) if e.get('args') else None
        if a is None or a['k'] != 'DeclRefExpr' or a.get('vid') is None:
            continue                      # freeSlot(newSlot()), freeSlot(expr): nothing to track
        vid = a['vid']
        n += 1
        inst = 'no use of %s after freeSlot in %s' % (a['d'].split('::')[-1], fn.q)
        redefs, uses = [], []
        for _, u in fn.elements():
            if u['k'] == 'BinaryOperator' and u['op'] == '=':
                l = fn.strip(u['c'][0])
                if l['k'] == 'DeclRefExpr' and l.get('vid') == vid:
                    redefs.append(u)
            elif u['k'] == 'DeclStmt' and any(d.get('vid') == vid for d in u['decls']):
                redefs.append(u)
            elif u['k'] == 'MemberExpr' and u.get('arrow') and u.get('c'):
                b = fn.strip_all_casts(u['c'][0])
                if b['k'] == 'DeclRefExpr' and b.get('vid') == vid:
                    uses.append(u)
            elif u['k'] == 'UnaryOperator' and u['op'] == '*':
                b = fn.strip_all_casts(u['c'][0])
                if b['k'] == 'DeclRefExpr' and b.get('vid') == vid:
                    uses.append(u)
        bad = [u for u in uses if reaches_avoiding(fn, e, u, avoid=redefs)]
        if bad:
            run.violated(rule, inst, fn.loc(bad[0]), '%s is dereferenced (%s) on a path after Segment::freeSlot(%s): the slot has been wiped and put on the free list, '
                         'its links now lead into the pool' % (a['d'].split('::')[-1], fn.render(bad[0]), a['d'].split('::')[-1]))
        else:
            run.held(rule, inst, fn.loc(e), '%d dereferences of the variable in the function, none reachable after the call before a re-definition' % len(uses))
    if n < 3:
        run.broken(rule, 'freeSlot call sites', 'expected at least 3 freeSlot(variable) call sites, found %d' % n)


def mutators(run, fx):
    for q in ('graphite2::Slot::next', 'graphite2::Slot::prev'):
        users = {}
        for fn, e in callers_of(fx, q):
            if e.get('args'):
                users.setdefault(fn.q, []).append(fn.loc(e))
        extra = sorted(set(users) - set(STREAM_MUTATORS))
        inst = 'callers of %s(Slot*)' % q.split('::')[-1]
        if extra:
            run.violated('MUTATORS', inst, users[extra[0]][0], '%s relinks the glyph stream but is not one of the tabled mutators whose link symmetry is '
                         'checked: %s' % (extra, sorted(STREAM_MUTATORS)))
        else:
            run.held('MUTATORS', inst, '', '%d call sites in %d tabled functions' % (sum(len(v) for v in users.values()), len(users)), False)
    fw = field_writes(fx)
    for field, allowed in (('graphite2::Slot::m_next', {'graphite2::Slot::Slot', 'graphite2::Slot::next'}),
                           ('graphite2::Slot::m_prev', {'graphite2::Slot::Slot', 'graphite2::Slot::prev'}),
                           ('graphite2::Segment::m_first', HEADTAIL_WRITERS), ('graphite2::Segment::m_last', HEADTAIL_WRITERS)):
        ws = set(fn.q for fn, e, k in fw.get(field, []))
        extra = sorted(ws - allowed)
        inst = 'writers of %s' % field.split('::')[-1]
        if extra:
            run.violated('MUTATORS', inst, '', '%s is written directly by %s (allowed: %s)' % (field, extra, sorted(allowed)))
        else:
            run.held('MUTATORS', inst, '', 'written only by %s' % sorted(ws), False)
    # whole-slot memcpy only in put_copy / temp_copy (and the unreachable Slot::set)
    users = set()
    for fn, e in callers_of(fx, 'memcpy'):
        a0 = fn.strip_all_casts(e['args'][0])
        if 'graphite2::Slot *' in (a0.get('t') or '') or 'graphite2::Slot *' in (fn.strip(e['args'][0]).get('t') or ''):
            users.add(fn.q)
    allowed = {'(anonymous namespace)::put_copy', '(anonymous namespace)::temp_copy', '(anonymous namespace)::direct_run'}
    if users - allowed:
        run.violated('MUTATORS', 'whole-slot memcpy', '', 'a whole Slot (with its links) is overwritten by memcpy in %s' % sorted(users - allowed))
    else:
        run.held('MUTATORS', 'whole-slot memcpy', '', 'only %s' % sorted(users), False)


def _before_in_iteration(fn, header, a, b):
    """within one iteration of the loop at `header`, element a is executed before element b (a reaches b without going through
    the header)"""
    ba, bb = fn.block_of[a['i']], fn.block_of[b['i']]
    if ba == bb:
        return fn.pos_of[a['i']] < fn.pos_of[b['i']]
    seen, st = set(), [s for s in fn.succs(ba) if s is not None]
    while st:
        x = st.pop()
        if x in seen or x == header:
            continue
        seen.add(x)
        if x == bb:
            return True
        st.extend(s for s in fn.succs(x) if s is not None)
    return False


def index(run, fx):
    """slot numbering: one traversal of the stream (s = s->next()) in which every iteration hands exactly one value of a counter to
    Slot::index, the counter starts at 0, is only ever stepped by one, once per iteration, and not before its value was handed over"""
    from .util import loops_around, every_iteration_passes, reaches_avoiding
    ac = fx.one('graphite2::Segment::associateChars')
    idx = [e for e in calls_in(ac, 'graphite2::Slot::index') if e.get('args')]
    ok, why = False, 'no Slot::index(value) call'
    for e in idx:
        a = ac.strip_all_casts(e['args'][0])
        inc_in_arg = a['k'] == 'UnaryOperator' and a.get('op') == 'post++'
        ctr = ac.strip_all_casts(a['c'][0]) if a['k'] == 'UnaryOperator' and a.get('c') else a
        if ctr['k'] != 'DeclRefExpr' or ctr.get('vid') is None:
            why = 'the value handed to Slot::index is `%s`, not a counter' % ac.render(a)
            continue
        vid = ctr['vid']
        inits = [x_ for _, d in ac.elements() if d['k'] == 'DeclStmt' for x_ in d.get('decls', []) if x_.get('vid') == vid]
        init0 = len(inits) == 1 and inits[0].get('init') is not None and ac.strip_all_casts(inits[0]['init']).get('v') == 0
        mods = []
        for _, u in ac.elements():
            if u.get('c') and u['c'][0] is not None and ac.strip_all_casts(u['c'][0])['k'] == 'DeclRefExpr' and ac.strip_all_casts(u['c'][0]).get('vid') == vid:
                if u['k'] == 'UnaryOperator' and u.get('op') in ('pre++', 'post++', 'pre--', 'post--'):
                    mods.append((u, u['op'] in ('pre++', 'post++')))
                elif u['k'] == 'CompoundAssignOperator':
                    mods.append((u, u.get('op') == '+=' and ac.strip_all_casts(u['c'][1]).get('v') == 1))
                elif u['k'] == 'BinaryOperator' and u.get('op') == '=':
                    mods.append((u, False))
        b = ac.block_of[e['i']]
        ls = loops_around(ac, b)
        if not init0:
            why = 'the counter does not start at 0'
        elif len(mods) != 1 or not mods[0][1]:
            why = 'the counter is modified %d times / not by a single step of one' % len(mods)
        elif not ls:
            why = 'Slot::index is not called in a loop'
        else:
            h = ls[0]
            inc = mods[0][0]
            steps = [x for x in ac.blocks if ac.blocks[x]['el'] and h in loops_around(ac, x)[:1] for y in ac.blocks[x]['el']
                     if y['k'] == 'BinaryOperator' and y.get('op') == '=' and 'next()' in ac.render(y, resolve=True)]
            hcond = ac.term_cond(h)
            if loops_around(ac, ac.block_of[inc['i']])[:1] != [h]:
                why = 'the counter is stepped in another loop than the one that numbers the slots'
            elif not every_iteration_passes(ac, h, b) or not every_iteration_passes(ac, h, ac.block_of[inc['i']]):
                why = 'an iteration of the traversal can skip the numbering or the step of the counter'
            elif not steps:
                why = 'the numbering loop does not advance with s = s->next()'
            elif not inc_in_arg and _before_in_iteration(ac, h, inc, e):
                why = 'the counter is stepped before its value is handed to Slot::index (numbering would start at 1)'
            else:
                ok = True
                run.held('INDEX', 'associateChars numbering', ac.loc(e), 'one Slot::index(counter) and one step of the counter per iteration of the stream traversal, counter = 0 at the start')
                break
    if not ok:
        run.violated('INDEX', 'associateChars numbering', ac.where(), 'associateChars no longer numbers the slots 0,1,2,.. on one traversal of the stream: %s' % why)
    # PUT_COPY may only put the slot's OWN index back after its whole-slot copy (putcopy_index checks exactly that): not a numbering site
    restorers = {'(anonymous namespace)::put_copy', '(anonymous namespace)::direct_run'}
    ws = sorted(set(fn.q for fn, e in callers_of(fx, 'graphite2::Slot::index') if e.get('args')) - restorers)
    fws = sorted(set(fn.q for fn, e, k in field_writes(fx).get('graphite2::Slot::m_index', [])) - {'graphite2::Slot::Slot', 'graphite2::Slot::index'})
    if ws == ['graphite2::Segment::associateChars'] and not fws:
        run.held('INDEX', 'writers of the slot index', '', 'only associateChars', False)
    else:
        run.violated('INDEX', 'writers of the slot index', '', 'slot indices are also assigned by %s / written by %s' % (ws, fws))
    rg = fx.one('graphite2::Face::runGraphite')
    runs = sorted(calls_in(rg, 'graphite2::Silf::runGraphite'), key=lambda e: (e['ln'], e['col']))
    assoc = calls_in(rg, 'graphite2::Segment::associateChars')
    if len(runs) == 2 and len(assoc) == 1:
        domt = rg.dominators()
        b1, ba, b2 = rg.block_of[runs[0]['i']], rg.block_of[assoc[0]['i']], rg.block_of[runs[1]['i']]
        first_args = rg.render(rg.N(runs[0]['args'][2]))
        second_args = rg.render(rg.N(runs[1]['args'][1]))
        if b1 in domt[ba] and ba in domt[b2] and 'positionPass()' in first_args and 'positionPass()' in second_args:
            run.held('INDEX', 'associateChars between the two runs', rg.loc(assoc[0]), 'substitution run [0, positionPass) -> associateChars -> run [positionPass, numPasses)')
        else:
            run.violated('INDEX', 'associateChars between the two runs', rg.loc(assoc[0]), 'Face::runGraphite no longer numbers the slots after the substitution '
                         'passes and before the positioning passes')
    else:
        run.broken('INDEX', 'associateChars between the two runs', 'expected 2 Silf::runGraphite calls and 1 associateChars call', rg.where())
    # collision info is sized by slotCount() and indexed by Slot::index(): initCollisions after associateChars
    ic = calls_in(rg, 'graphite2::Segment::initCollisions')
    if ic and assoc and rg.block_of[assoc[0]['i']] in rg.dominators()[rg.block_of[ic[0]['i']]]:
        run.held('INDEX', 'initCollisions after numbering', rg.loc(ic[0]), 'collision array sized/indexed after the indices exist')
    else:
        run.violated('INDEX', 'initCollisions after numbering', rg.where(), 'Segment::initCollisions is not dominated by associateChars')


def nomutpos(run, vm):
    fx = vm.fx
    fn = fx.one('graphite2::vm::Machine::Code::decoder::fetch_opcode')
    pos = fx.enum_value('graphite2::PASS_TYPE_POSITIONING')
    sw = [b for b in fn.blocks if (fn.blocks[b].get('term') or {}).get('k') == 'SwitchStmt'][0]
    for name in ('INSERT', 'DELETE'):
        n = vm.opnum[name]
        tgt = None
        for s in fn.blocks[sw]['succ']:
            if s is not None and (fn.blocks[s].get('label') or {}).get('lo') == n:
                tgt = s
        inst = '%s rejected in positioning passes' % name
        if tgt is None:
            run.violated('NOMUTPOS', inst, fn.where(), 'fetch_opcode has no case for %s' % name)
            continue
        # the statement following the pass-type test (the first _out_* update of the case) must be reachable only with _passtype < POSITIONING
        fails = [e for e in calls_in(fn, 'graphite2::vm::Machine::Code::decoder::failure')
                 if (fn.strip_all_casts(e['args'][0]).get('d') or '').endswith('invalid_opcode') and tgt in fn.dominators()[fn.block_of[e['i']]]]
        ok = False
        for e in fails:
            fs = dom.facts_at(fn, e['i'])
            for f in fs:
                if f[0] == 'this->_passtype' and f[1] in ('>=', '>') and f[2].isdigit():
                    lo = int(f[2]) if f[1] == '>=' else int(f[2]) + 1
                    if lo <= pos:
                        ok = True
        if ok:
            run.held('NOMUTPOS', inst, '%s:%s' % (fn.file, (fn.blocks[tgt].get('label') or {}).get('ln')), 'failure(invalid_opcode) for every _passtype >= PASS_TYPE_POSITIONING (%d)' % pos)
        else:
            run.violated('NOMUTPOS', inst, '%s:%s' % (fn.file, (fn.blocks[tgt].get('label') or {}).get('ln')),
                         'the loader accepts %s in a pass of type POSITIONING (or later): slot indices assigned by associateChars and the collision '
                         'array sized by slotCount() go stale when the stream length changes after numbering' % name)
    vals = [fx.enum_value('graphite2::PASS_TYPE_' + x) for x in ('LINEBREAK', 'SUBSTITUTE', 'POSITIONING', 'JUSTIFICATION')]
    if vals == sorted(vals) and len(set(vals)) == 4:
        run.held('NOMUTPOS', 'passtype order', '', 'LINEBREAK < SUBSTITUTE < POSITIONING < JUSTIFICATION %s' % vals, False)
    else:
        run.violated('NOMUTPOS', 'passtype order', 'src/inc/Code.h', 'enum passtype is no longer ordered LINEBREAK < SUBSTITUTE < POSITIONING < JUSTIFICATION: %s' % vals)
    sg = fx.inl(fx.one('graphite2::Silf::readGraphite'))
    # every assignment of a pass type constant to a local of type passtype (the value handed to readPass, possibly through a helper
    # that was inlined): under which comparison with m_pPass / m_jPass it happens
    st = [e for _, e in sg.elements() if e['k'] == 'BinaryOperator' and e['op'] == '=' and 'passtype' in (sg.strip_all_casts(e['c'][0]).get('t') or '')
          and sg.strip_all_casts(e['c'][0])['k'] == 'DeclRefExpr']
    got = {}
    for e in st:
        v = dom._cval(sg, e['c'][1])
        fs = [f[:3] for f in dom.facts_at(sg, e['i'])]
        got.setdefault(v, []).extend(fs)
    # facts about the pass INDEX (not the loader's own relations between the members): every i >= m_pPass is POSITIONING or later,
    # so the arms below POSITIONING hold i < m_pPass strictly
    want_pos = any(f[1] == '>=' and f[2] == 'this->m_pPass' and not f[0].startswith('this->') for f in got.get(pos, []))
    want_just = any(f[1] == '>=' and f[2] == 'this->m_jPass' and not f[0].startswith('this->') for f in got.get(pos + 1, []))
    for lower in (pos - 1, pos - 2):
        if lower in got and not any(f[1] == '<' and f[2] == 'this->m_pPass' and not f[0].startswith('this->') for f in got[lower]):
            want_pos = False
    got = {k_: [f for f in v_ if 'Pass' in f[2]] for k_, v_ in got.items()}
    if want_pos and want_just:
        run.held('NOMUTPOS', 'pass index -> type', sg.where(), 'i >= m_pPass => POSITIONING, i >= m_jPass => JUSTIFICATION')
    else:
        run.violated('NOMUTPOS', 'pass index -> type', sg.where(), 'Silf::readGraphite no longer types passes [m_pPass, ...) as POSITIONING/JUSTIFICATION: %s' % got)


def putcopy_index(run, vm):
    """INDEX: PUT_COPY is not among the opcodes the loader keeps out of positioning and justification passes (only INSERT and DELETE are),
    and it overwrites the whole live slot -- m_index included -- with another slot's bytes.  After Segment::associateChars has numbered the
    slots that would give two slots the same gr_slot_index.  The slot's own index, read before the copy, must be put back on every
    path after it (as its stream links and user-attribute block are)."""
    from .util import every_path_calls
    pc = vm.handlers['put_copy']
    mc = [e for e in calls_in(pc, 'memcpy') if 'graphite2::Slot *' in (pc.strip(e['args'][0]).get('t') or '') or 'sizeof' in pc.render(pc.N(e['args'][2])) or pc.strip_all_casts(e['args'][2]).get('v', 0) > 40]
    slotcpy = [e for e in mc if pc.render(pc.strip_all_casts(e['args'][0])) in ('reg.is',)]
    inst = 'PUT_COPY keeps the slot\'s own index'
    if not slotcpy:
        run.broken('INDEX', inst, 'put_copy: whole-slot memcpy into the live slot not found', pc.where())
        return
    saved = set()
    for _, e in pc.elements():
        if e['k'] == 'DeclStmt':
            for d in e['decls']:
                if d.get('init') is None:
                    continue
                x = pc.strip_all_casts(d['init'])
                if x['k'] == 'CXXMemberCallExpr' and x.get('fq') == 'graphite2::Slot::index' and not x.get('args') and pc.render(pc.deref(x['obj']), resolve=True) == 'reg.is' \
                        and pc.block_of[e['i']] in pc.dominators()[pc.block_of[slotcpy[0]['i']]]:
                    saved.add(d['vid'])

    def restores(e):
        if not ((e.get('fq') or '') == 'graphite2::Slot::index' and e.get('args')):
            return False
        if pc.render(pc.deref(e['obj']), resolve=True) != 'reg.is':
            return False
        a = pc.strip_all_casts(e['args'][0])
        return a['k'] == 'DeclRefExpr' and a.get('vid') in saved
    r = every_path_calls(pc, slotcpy[0], restores) if saved else False
    if r is True:
        run.held('INDEX', inst, pc.loc(slotcpy[0]), 'index saved before the whole-slot copy and restored on every path after it')
    else:
        run.violated('INDEX', inst, pc.loc(slotcpy[0]), 'PUT_COPY copies another slot\'s m_index into the live slot and does not put the slot\'s own index back%s: a font whose positioning or '
                     'justification rule uses PUT_COPY with a non-zero slot reference (the loader accepts it) leaves two slots with the same gr_slot_index, so the indices are '
                     'no longer a permutation of 0..n-1' % ('' if not saved else ' on every path'))


def classbound(run, fx):
    """GIDCLAMP's other half: "on fonts whose substitution classes name only real glyphs every gid is below n_glyphs" needs an output class
    lookup to answer only from INSIDE the class.  Silf::getClassGlyph(cid, index) is interpreted (rules/ordint.py) on a class map with two
    linear classes (sizes 2 and 3) followed by a lookup class, every cid, every index 0..7, each cell of the class data carrying its own
    position: a non-zero answer for a linear class must come from a cell of that class."""
    from . import ordint as O
    fn = fx.one('graphite2::Silf::getClassGlyph')
    rec = fx.record('graphite2::Silf')
    P = 'graphite2::Silf::'
    offs = [0, 2, 5, 13]                    # two linear classes, one lookup class of 4 header words + 2 pairs
    ndata = 13
    n = 0
    for cid in range(0, 3):             # cid < m_nClass is the bytecode loader's obligation (C01 VALIDATOR/OPERANDCHECK: valid_upto(_max.classes, ..))
        for index in range(0, 8):
            silf = O.Rec()
            for f in rec['fields']:
                silf[P + f['n']] = None
            data = O.Vec([1000 + k for k in range(ndata)])
            # the lookup class: header (4 words) then (glyph, index) pairs
            data.items[9 + 1] = 0
            data.items[11 + 1] = 1
            silf[P + 'm_classOffsets'] = O.It(O.Vec(list(offs)), 0)
            silf[P + 'm_classData'] = O.It(data, 0)
            silf[P + 'm_nClass'] = 3
            silf[P + 'm_nLinear'] = 2
            it = O.Interp(fx)
            it.MAX_STEPS = 2000
            try:
                r = it.call(fn, silf, [cid, index])
            except O.Violation as v:
                return run.violated('GIDCLAMP', 'getClassGlyph answers from inside the class', fn.where(),
                                    'class %d, index %d: %s (%s)' % (cid, index, v.what, v.loc))
            n += 1
            if cid < 2 and isinstance(r, int) and r != 0:
                cell = r - 1000
                if not (offs[cid] <= cell < offs[cid + 1]) or cell != offs[cid] + index:
                    return run.violated('GIDCLAMP', 'getClassGlyph answers from inside the class', fn.where(),
                                        'linear class %d (cells %d..%d of the class data), index %d: the answer is taken from cell %d -- outside the class; the slot gets whatever '
                                        'word follows (another class\'s glyph or a lookup header count), which need not be a glyph of the font'
                                        % (cid, offs[cid], offs[cid + 1] - 1, index, cell))
            if cid < 2 and index < offs[cid + 1] - offs[cid] and r != 1000 + offs[cid] + index:
                return run.violated('GIDCLAMP', 'getClassGlyph answers from inside the class', fn.where(),
                                    'linear class %d, index %d: expected the class member in cell %d, got %r' % (cid, index, offs[cid] + index, r))
    run.held('GIDCLAMP', 'getClassGlyph answers from inside the class', fn.where(), '%d abstract executions (cid 0..2 x index 0..7)' % n)


def gidclamp(run, fx):
    sg = fx.one('graphite2::Slot::setGlyph')
    asg = [e for _, e in sg.elements() if e['k'] == 'BinaryOperator' and e['op'] == '=' and sg.render(sg.N(e['c'][0])) == 'this->m_realglyphid'
           and 'aPseudo()' in sg.render(sg.N(e['c'][1]))]
    if not asg:
        raise AnalysisBroken('Slot::setGlyph: assignment of m_realglyphid from the pseudo attribute not found')
    ab = sg.block_of[asg[0]['i']]
    cmpb = [b for b in sg.blocks if sg.term_cond(b) is not None and 'm_realglyphid' in sg.render(sg.term_cond(b)) and 'numGlyphs()' in sg.render(sg.term_cond(b))]
    reset = [e for _, e in sg.elements() if e['k'] == 'BinaryOperator' and e['op'] == '=' and sg.render(sg.N(e['c'][0])) == 'this->m_realglyphid'
             and sg.strip_all_casts(e['c'][1]).get('v') == 0 and
             any(f[0] == 'this->m_realglyphid' and f[1] in ('>', '>=') and 'numGlyphs()' in f[2] for f in dom.facts_at(sg, e['i']))]
    ok = bool(cmpb) and bool(reset)
    if ok:
        # every path from the assignment to the exit passes the comparison block
        seen, stack = set(), [ab]
        esc = False
        while stack:
            b = stack.pop()
            if b in seen:
                continue
            seen.add(b)
            if b == cmpb[0] and b != ab:
                continue
            if b == sg.exit:
                esc = True
                break
            stack.extend(sg.succs(b))
        ok = not esc or ab == cmpb[0]
    if ok:
        run.held('GIDCLAMP', 'setGlyph clamps the real glyph', sg.loc(asg[0]), 'm_realglyphid compared with numGlyphs() on every path; out-of-range => 0')
    else:
        run.violated('GIDCLAMP', 'setGlyph clamps the real glyph', sg.loc(asg[0]), 'the pseudo-glyph\'s real glyph id taken from a glyph attribute is no longer '
                     'compared with numGlyphs() (and reset to 0) on every path: gr_slot_gid can exceed gr_face_n_glyphs')


def run(run):
    vm = R.get_vm(run)
    fx = vm.fx
    linksym(run, vm)
    newslotclean(run, fx)
    freedslot(run, fx, 'NEWSLOTCLEAN')
    mutators(run, fx)
    c02.growth(run, vm)
    index(run, fx)
    putcopy_index(run, vm)
    from . import width
    width.no_narrow(run, fx, 'INDEX', [('Slot::index', 'graphite2::Slot::index'), 'graphite2::Segment::m_numGlyphs'])
    nomutpos(run, vm)
    gidclamp(run, fx)
    mirrorguard(run, fx)
    try:
        classbound(run, fx)
    except AnalysisBroken as ex:
        run.broken('GIDCLAMP', 'getClassGlyph answers from inside the class', str(ex))
    from . import c19, ordint as O_
    from . import effrules as ER_
    ER_.advinit(run, fx, 'GIDCLAMP')      # 'every origin / advance is a finite number': a hinted font's advance cache starts fully initialised (shared with C08)
    inst_ = 'INSERT / DELETE leave a well-formed chain with exactly the one slot added / removed (handlers interpreted)'
    try:
        cases_, bad_ = handlers_exec(run, vm, 3)
        if bad_:
            run.violated('LINKSYM', inst_, vm.handlers['insert'].where(), bad_)
        else:
            run.held('LINKSYM', inst_, vm.handlers['insert'].where(), '%d abstract executions' % cases_)
    except O_.AnalysisBroken as ex:
        run.broken('LINKSYM', inst_, str(ex), '')
    try:
        cases_, bad_ = c02.newslot_exec(run, fx)
        if bad_:
            run.violated('NEWSLOTCLEAN', 'newSlot: the free list is exactly the rest of the new block (interpreted)', fx.one('graphite2::Segment::newSlot').where(), bad_)
        else:
            run.held('NEWSLOTCLEAN', 'newSlot: the free list is exactly the rest of the new block (interpreted)', fx.one('graphite2::Segment::newSlot').where(), '%d abstract executions' % cases_)
    except O_.AnalysisBroken as ex:
        run.broken('NEWSLOTCLEAN', 'newSlot: the free list is exactly the rest of the new block (interpreted)', str(ex), '')
    rs_ = fx.one('graphite2::Segment::reverseSlots')
    inst_ = 'reverseSlots leaves a well-formed chain of the same slots (interpreted)'
    try:
        cases_, bad_ = c19.reverse_exec(run, fx, 5)
        if bad_:
            run.violated('LINKSYM', inst_, rs_.where(), bad_)
        else:
            run.held('LINKSYM', inst_, rs_.where(), '%d streams x mark placements interpreted' % cases_)
    except O_.AnalysisBroken as ex:
        run.broken('LINKSYM', inst_, str(ex), rs_.where())
    from . import validators as validators_
    validators_.check(run, fx, 'GIDCLAMP')          # class tables and glyph ids are bounded at load: what the substitutions read is inside the font (shared with C01)
    from . import c01 as c01_
    c01_.glocids(run, fx, 'GIDCLAMP')           # gr_face_n_glyphs is the number of glyphs the font's own rules may name (shared with C01)
    from . import c12 as c12_
    from .util import OnlyRules
    for f_ in (c12_.countsync, c12_.textexec):          # gr_seg_n_slots is the number of slots the stream holds: the count read_text stores is the number of appendSlot calls (shared with C12)
        try:
            f_(OnlyRules(run, ['NULSTOP', 'COUNTSYNC'], {'NULSTOP': 'INDEX', 'COUNTSYNC': 'INDEX'}, soft=True), fx)
        except AnalysisBroken as ex:
            run.observe('shared C12 rule could not decide here: %s' % ex)
    c19.justify_rules(OnlyRules(run, ['RESTORE'], {'RESTORE': 'LINKSYM'}), fx)        # after gr_seg_justify the segment's first slot has no prev and its last no next (shared with C19)
    le_ = fx.one('graphite2::Segment::addLineEnd')
    inst_ = 'a line-end marker goes in and out without a trace (addLineEnd + delLineEnd interpreted)'
    try:
        cases_, bad_ = c19.lineend_exec(run, fx)          # gr_seg_justify puts temporary markers into the stream: prev stays the inverse of next (shared with C19)
        if bad_:
            run.violated('LINKSYM', inst_, le_.where(), bad_)
        else:
            run.held('LINKSYM', inst_, le_.where(), '%d abstract executions' % cases_)
    except O_.AnalysisBroken as ex:
        run.broken('LINKSYM', inst_, str(ex), le_.where())
    run.assume('pre-state of each mutator is a well-formed stream (the rules are the preservation step of an induction; the base case is '
               'appendSlot on the empty segment)')
    run.assume('allocation failure is outside the quantifier')


def _chain_of(O, seg, limit):
    """(ids in next order, error) -- next from m_first visits distinct slots, prev is its exact inverse, the walk ends at m_last"""
    PS, PG = 'graphite2::Slot::', 'graphite2::Segment::'
    out, s, seen, prev = [], seg[PG + 'm_first'], set(), None
    while isinstance(s, O.Ptr) and s.rec is not None:
        if id(s.rec) in seen or len(out) > limit:
            return None, 'the next chain from m_first runs into a cycle after %s' % out
        seen.add(id(s.rec))
        p = s.rec[PS + 'm_prev']
        if (p.rec if isinstance(p, O.Ptr) else None) is not prev:
            return None, 'slot #%d: prev is %s, but it is reached from %s' % (s.rec['#'], 'null' if p.rec is None else '#%d' % p.rec['#'], 'm_first' if prev is None else '#%d' % prev['#'])
        out.append(s.rec['#'])
        prev = s.rec
        s = s.rec[PS + 'm_next']
    last = seg[PG + 'm_last']
    if (last.rec if isinstance(last, O.Ptr) else None) is not prev:
        return None, 'm_last is %s, the chain ends at %s' % ('null' if last.rec is None else '#%d' % last.rec['#'], 'nothing' if prev is None else '#%d' % prev['#'])
    return out, None


def mirrorguard(run, fx):
    """GIDCLAMP: Segment::doMirror(a) replaces a glyph by the value of its glyph attribute a; 0 means the font has no mirroring
    attribute, and attribute 0 is then some unrelated attribute whose value is not a glyph id.  Every call of doMirror is dominated by
    a non-zero test of the attribute number it passes (sibling agreement: Silf::runGraphite tests m_aMirror, Face::runGraphite must
    test aMirror())."""
    sites = callers_of(fx, 'graphite2::Segment::doMirror')
    if len(sites) < 2:
        run.broken('GIDCLAMP', 'doMirror only with a mirroring attribute', 'expected the two call sites (Face::runGraphite, Silf::runGraphite), found %d' % len(sites))
        return
    for fn, e in sites:
        a = fn.render(fn.strip_all_casts(fn.N(e['args'][0])))
        inst = 'doMirror only with a mirroring attribute in %s' % fn.q.split('graphite2::')[-1]
        ok = [f for f in dom.facts_at(fn, e['i']) if f[0] == a and f[1] == '!=' and f[2] == '0']
        if ok:
            run.held('GIDCLAMP', inst, fn.loc(e), 'dominated by %s != 0' % a)
        else:
            run.violated('GIDCLAMP', inst, fn.loc(e), '%s calls doMirror(%s) without testing that the font HAS a mirroring attribute (%s != 0): for a font without one, glyph attribute 0 of every '
                         'glyph is taken as the id of its mirrored glyph -- any value, also beyond the number of glyphs' % (fn.q, a, a))


def handlers_exec(run, vm, maxn=3):
    """LINKSYM by bounded execution (rules/ordint.py): the INSERT and DELETE handlers (the per-opcode functions of call_machine.cpp, i.e. the
    bodies of inc/opcodes.h, with the Slot / Segment / SlotMap accessors inlined from their own CFGs; Segment::newSlot is a native handing
    out a clean slot) are interpreted on every stream of 0..maxn slots x current slot (any slot, null, or -- for INSERT -- a slot deleted
    earlier in the rule whose next still points into the stream) x high-water mark.  Afterwards the stream is a well-formed doubly linked
    chain: INSERT adds exactly the new slot, directly in front of the first live slot at or after the current one (at the end if there is
    none), the other slots keep their order, the count grows by one and the new slot becomes current; DELETE removes exactly the current
    slot, marks it deleted, the count drops by one, the high-water mark moves off it."""
    from . import ordint as O
    fx = vm.fx
    PS, PM, PG = 'graphite2::Slot::', 'graphite2::SlotMap::', 'graphite2::Segment::'
    srec = fx.record('graphite2::Slot')
    DEL = 1

    def mkslot(k):
        s = O.Rec()
        for f in srec['fields']:
            s[PS + f['n']] = O.Ptr(None) if f.get('ptr') else 0
        s['#'] = k
        return s
    cases = 0
    for hname in ('insert', 'delete_'):
        h = vm.handlers[hname]
        for n in range(0, maxn + 1):
            cur = [('slot', k) for k in range(n)] + [('null', None)]
            if hname == 'insert':
                cur += [('dead', k) for k in range(n + 1)]       # a deleted slot whose next is slot k (or null)
            for kind, k in cur:
                for hw in [None] + list(range(n)):
                    slots = [mkslot(i) for i in range(n)]
                    for i, sl in enumerate(slots):
                        sl[PS + 'm_next'] = O.Ptr(slots[i + 1]) if i + 1 < n else O.Ptr(None)
                        sl[PS + 'm_prev'] = O.Ptr(slots[i - 1]) if i else O.Ptr(None)
                        sl[PS + 'm_before'] = sl[PS + 'm_after'] = sl[PS + 'm_original'] = i
                    dead = None
                    if kind == 'dead':
                        dead = mkslot(50)
                        dead[PS + 'm_flags'] = DEL
                        dead[PS + 'm_next'] = O.Ptr(slots[k]) if k < n else O.Ptr(None)
                        dead[PS + 'm_prev'] = O.Ptr(slots[k - 1]) if 0 < k <= n and n else O.Ptr(None)
                    seg = O.Rec({PG + 'm_first': O.Ptr(slots[0]) if n else O.Ptr(None), PG + 'm_last': O.Ptr(slots[-1]) if n else O.Ptr(None),
                                 PG + 'm_numGlyphs': n, PG + 'm_defaultOriginal': 0})
                    mapvec = O.Vec([O.Ptr(None)] + [O.Ptr(s) for s in slots] + [O.Ptr(None)] * 3)
                    smap = O.Rec({PM + 'segment': seg, PM + 'm_slot_map': O.It(mapvec, 0), PM + 'm_precontext': 0, PM + 'm_size': n,
                                  PM + 'm_highwater': O.Ptr(slots[hw]) if hw is not None else O.Ptr(None), PM + 'm_highpassed': False, PM + 'm_maxSize': 10})
                    isrec = slots[k] if kind == 'slot' else dead
                    stbox = [0]
                    reg = O.Rec({'regbank::is': O.Ptr(isrec), 'regbank::map': O.It(mapvec, 1 + (k if kind == 'slot' else 0)), 'regbank::smap': smap,
                                 'regbank::map_base': O.It(mapvec, 1), 'regbank::direction': 0, 'regbank::flags': 0, 'regbank::status': O.LV(stbox, 0)})
                    stack = O.Vec([0] * 8)
                    fresh = []

                    def newslot(I, fn, e, obj, a, fresh=fresh):
                        s = mkslot(100 + len(fresh))
                        fresh.append(s)
                        return O.Ptr(s)
                    it = O.Interp(fx, natives={'graphite2::Segment::newSlot': newslot})
                    it.MAX_STEPS = 4000
                    desc = '%s on %d slot(s), current = %s, high-water mark %s' % (hname.rstrip('_').upper(), n, {'slot': 'slot #%s' % k, 'null': 'null', 'dead': 'a deleted slot in front of %s' % ('#%d' % k if k is not None and k < n else 'the end')}[kind],
                                                                                   'none' if hw is None else '#%d' % hw)
                    cases += 1
                    try:
                        res = it.call(h, None, [O.LV([O.It(O.Vec([0] * 4), 0)], 0), O.LV([O.It(stack, 2)], 0), O.It(stack, 2), reg])
                    except O.Violation as v:
                        if hname == 'delete_' and kind == 'null':
                            continue
                        return cases, '%s: %s (%s)' % (desc, v.what, v.loc)
                    got, err = _chain_of(O, seg, n + 3)
                    if err:
                        return cases, '%s: afterwards %s' % (desc, err)
                    if res is False or res == 0:
                        # the handler stopped the program (DIE): the stream must be what it was
                        if got != list(range(n)):
                            return cases, '%s: the handler gives up but leaves the stream as %s' % (desc, got)
                        continue
                    if hname == 'insert':
                        pos = k if kind in ('slot', 'dead') and k is not None else n
                        want = list(range(pos)) + [100] + list(range(pos, n))
                        if len(fresh) != 1 or got != want:
                            return cases, '%s: the stream is %s afterwards, expected the new slot (#100) directly in front of %s: %s' % (desc, got, 'the end' if pos >= n else '#%d' % pos, want)
                        if seg[PG + 'm_numGlyphs'] != n + 1:
                            return cases, '%s: the slot count is %r, the stream has %d slots' % (desc, seg[PG + 'm_numGlyphs'], n + 1)
                        if reg['regbank::is'].rec is not fresh[0]:
                            return cases, '%s: the new slot does not become the current slot' % desc
                    else:
                        want = [i for i in range(n) if i != k]
                        if got != want:
                            return cases, '%s: the stream is %s afterwards, expected %s' % (desc, got, want)
                        if seg[PG + 'm_numGlyphs'] != n - 1:
                            return cases, '%s: the slot count is %r, the stream has %d slots' % (desc, seg[PG + 'm_numGlyphs'], n - 1)
                        if not (slots[k][PS + 'm_flags'] & DEL):
                            return cases, '%s: the removed slot is not marked deleted (SlotMap::collectGarbage will not free it)' % desc
                        hwp = smap[PM + 'm_highwater']
                        if hwp.rec is slots[k]:
                            return cases, '%s: the high-water mark still points at the removed slot' % desc
                        cur_after = reg['regbank::is'].rec
                        if k > 0 and cur_after is not slots[k - 1]:
                            return cases, '%s: the current slot afterwards is %s, expected the slot in front of the removed one' % (desc, '#%s' % cur_after['#'] if cur_after else 'null')
    return cases, None
