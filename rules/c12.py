"""C12 -- gr_make_seg consumes no more text than its contract allows.

NULSTOP    in every instantiation of process_utf_data: the decode of a character is
           followed, on every path to the next advance of the iterator and to the
           appendSlot call, by a branch on the decoded value being 0 whose zero edge
           leaves the loop (no further decode is reachable from it).
COUNTSYNC  the segment's char-info and slot counts are set from the number of characters
           actually consumed: process_utf_data returns its per-iteration counter, and
           Segment::read_text stores that result into m_numCharinfo and m_numGlyphs on
           every path from the call to its successful return.
ONEDECODE  exactly one decode per loop iteration (no second look-ahead read).
"""
from .facts import AnalysisBroken

LEVEL = 'other'
EXPLANATION = ('Path rule over the CFG of all three instantiations of process_utf_data and of Segment::read_text: '
               'dominance of the NUL test over the iterator advance and over appendSlot, non-reachability of any '
               'decode from the zero edge, dataflow of the consumed-character counter into m_numCharinfo/m_numGlyphs. '
               'A path property of one small loop: it holds for every text, encoding and nChars.')
FLOORS = {'TEXTFLOW': 3, 'NULSTOP': 5, 'COUNTSYNC': 4, 'ONEDECODE': 3, 'ADVANCEBOUND': 3, 'CONTGUARD': 3}


def find_decodes(fn):
    """elements that decode a character: conversion operator of the iterator's reference
    class to the scalar value type."""
    out = []
    for b, e in fn.elements():
        if e['k'] == 'CXXMemberCallExpr' and 'reference::operator' in (e.get('fq') or '') and '_utf_iterator' in e.get('fq', ''):
            out.append(e)
    return out


def zero_test(fn, cond, vids):
    """cond compares one of the variables in vids with zero: returns 'true_is_zero' /
    'false_is_zero' or None."""
    n = fn.strip(cond)
    neg = False
    while n['k'] == 'UnaryOperator' and n['op'] == '!':
        neg = not neg
        n = fn.strip(n['c'][0])

    def isvar(x):
        x = fn.strip_all_casts(x)
        return x['k'] == 'DeclRefExpr' and x.get('vid') in vids
    if n['k'] == 'BinaryOperator' and n['op'] in ('==', '!='):
        a, b = n['c']
        for x, y in ((a, b), (b, a)):
            if isvar(x) and fn.strip_all_casts(y).get('v') == 0:
                z = (n['op'] == '==')
                return 'true_is_zero' if z != neg else 'false_is_zero'
        return None
    if n['k'] == 'ImplicitCastExpr' and n.get('ck') == 'IntegralToBoolean' and isvar(n['c'][0]):
        return 'false_is_zero' if not neg else 'true_is_zero'
    if isvar(n):
        return 'false_is_zero' if not neg else 'true_is_zero'
    return None


def nulstop(run, fx):
    fns = fx.fns_named('process_utf_data')
    if len(fns) < 3:
        raise AnalysisBroken('process_utf_data: expected 3 instantiations (utf8/16/32), found %d' % len(fns))
    for fn in fns:
        tag = fn.qt.split('<', 1)[1].rsplit('>', 1)[0] if '<' in fn.qt else fn.qt
        inst = 'process_utf_data<%s>' % tag
        dec = find_decodes(fn)
        if len(dec) != 1:
            run.violated('ONEDECODE', inst, fn.where(),
                         '%d decode sites of the iterator per loop body (expected exactly one): a second read is '
                         'not protected by the NUL test' % len(dec)) if len(dec) > 1 else \
                run.broken('ONEDECODE', inst, 'no decode of the text iterator found', fn.where())
            if not dec:
                continue
        else:
            run.held('ONEDECODE', inst, fn.loc(dec[0]), 'one decode per iteration', False)
        d = dec[0]
        db = fn.block_of[d['i']]
        # variable(s) holding the decoded value
        vids = set()
        for b, e in fn.elements():
            if e['k'] == 'DeclStmt':
                for dd in e['decls']:
                    if dd.get('init') is not None and any(x is d or x.get('i') == d['i'] for x in fn.walk(dd['init'])):
                        vids.add(dd['vid'])
        if not vids:
            run.broken('NULSTOP', inst, 'decoded value is not bound to a local variable (unknown shape)', fn.loc(d))
            continue
        # iterator advance and appendSlot
        adv = [e for _, e in fn.elements() if e['k'] == 'CXXOperatorCallExpr' and (e.get('fq') or '').endswith('::operator++') and '_utf_iterator' in e['fq']]
        app = [e for _, e in fn.elements() if (e.get('fq') or '') == 'graphite2::Segment::appendSlot']
        if not adv or not app:
            run.broken('NULSTOP', inst, 'iterator advance or appendSlot call not found', fn.where())
            continue
        # candidate NUL tests
        tests = []
        for b in fn.blocks:
            c = fn.term_cond(b)
            if c is None:
                continue
            zt = zero_test(fn, c, vids)
            if zt:
                ss = fn.blocks[b]['succ']
                zero_succ = ss[0] if zt == 'true_is_zero' else ss[1]
                nz_succ = ss[1] if zt == 'true_is_zero' else ss[0]
                tests.append((b, zero_succ, nz_succ))
        dom = fn.dominators()
        ok = None
        why = 'no branch on the decoded character being 0'
        for (tb, zs, nzs) in tests:
            if db not in dom[tb]:
                why = 'NUL test does not follow the decode'
                continue
            if tb == db and fn.pos_of[fn.blocks[tb]['term'].get('cond', -1)] < fn.pos_of[d['i']]:
                continue
            if zs is None:
                ok = tb
                break
            reach = fn.reachable_from(zs)
            if db in reach:
                why = 'the zero edge of the NUL test at %s re-enters the loop (another decode is reachable)' % fn.loc(fn.term_cond(tb))
                continue
            bad = [e for e in adv + app if tb not in dom[fn.block_of[e['i']]] or
                   (nzs is not None and fn.block_of[e['i']] not in fn.reachable_from(nzs))]
            if bad:
                why = '%s at %s is not dominated by the NUL test' % (bad[0].get('fq'), fn.loc(bad[0]))
                continue
            ok = tb
            break
        if ok is None:
            run.violated('NULSTOP', inst, fn.loc(d),
                         'text decoding does not stop at a NUL: %s; with nChars over-estimating a NUL-terminated '
                         'string the loop reads code units beyond the terminator' % why,
                         {'decode': fn.render(d), 'tests_found': len(tests)})
        else:
            run.held('NULSTOP', inst, fn.loc(fn.term_cond(ok)),
                     'decode -> (value == 0 ? leave loop) dominates ++iterator and appendSlot')

        # COUNTSYNC part 1: the function returns its per-iteration counter
        rets = [e for _, e in fn.elements() if e['k'] == 'ReturnStmt']
        cnt_ok = False
        cnt_var = None
        for r in rets:
            if not r.get('c'):
                continue
            v = fn.strip_all_casts(r['c'][0])
            if v['k'] == 'DeclRefExpr' and v.get('vid') is not None:
                cnt_var = v
        if cnt_var is not None:
            # incremented exactly in the block(s) of the iterator advance, initialised to 0
            incs = [e for _, e in fn.elements() if e['k'] == 'UnaryOperator' and e['op'] in ('pre++', 'post++')
                    and fn.strip(e['c'][0]).get('vid') == cnt_var['vid']]
            init0 = any(dd.get('vid') == cnt_var['vid'] and dd.get('init') is not None and fn.strip_all_casts(dd['init']).get('v') == 0
                        for _, e in fn.elements() if e['k'] == 'DeclStmt' for dd in e['decls'])
            advb = {fn.block_of[e['i']] for e in adv}
            if incs and init0 and all(fn.block_of[e['i']] in advb for e in incs) and len(incs) == 1:
                cnt_ok = True
        if cnt_ok:
            run.held('COUNTSYNC', inst + ' returns consumed count', fn.where(),
                     'returns %s (0-initialised, incremented once with each iterator advance)' % cnt_var['d'])
        else:
            run.violated('COUNTSYNC', inst + ' returns consumed count', fn.where(),
                         'the number of characters actually consumed is not returned to the caller (counter must be '
                         '0-initialised, incremented once per iterator advance and returned)')


def countsync(run, fx):
    fn = fx.one('graphite2::Segment::read_text')
    calls = [e for _, e in fn.elements() if e.get('fq') == 'process_utf_data']
    if len(calls) < 3:
        raise AnalysisBroken('Segment::read_text: expected 3 calls of process_utf_data, found %d' % len(calls))
    # result variable(s): n = process_utf_data(...)
    res_vids = set()
    unassigned = []
    for c in calls:
        ps = fn.parents().get(c['i'], [])
        got = False
        cur = c['i']
        hops = 0
        while hops < 6:
            ps = fn.parents().get(cur, [])
            if not ps:
                break
            p = fn.nodes[ps[0]]
            if p['k'] == 'BinaryOperator' and p['op'] == '=':
                lhs = fn.strip(p['c'][0])
                if lhs['k'] == 'DeclRefExpr' and lhs.get('vid') is not None:
                    res_vids.add(lhs['vid'])
                    got = True
                break
            if p['k'] == 'DeclStmt':
                for dd in p['decls']:
                    res_vids.add(dd['vid'])
                    got = True
                break
            cur = p['i']
            hops += 1
        if not got:
            unassigned.append(c)
    for c in unassigned:
        run.violated('COUNTSYNC', 'read_text result of call@%s' % c['ln'], fn.loc(c),
                     'the consumed-character count returned by process_utf_data is dropped')
    # writes of the two count fields whose value derives from the result variable
    field_writes = {'graphite2::Segment::m_numCharinfo': [], 'graphite2::Segment::m_numGlyphs': []}
    for _, e in fn.elements():
        if e['k'] == 'BinaryOperator' and e['op'] == '=':
            lhs = fn.strip(e['c'][0])
            if lhs['k'] == 'MemberExpr' and lhs['d'] in field_writes:
                # value: variable, or a nested assignment chain ending in the variable
                val = fn.strip_all_casts(e['c'][1])
                hops = 0
                while val['k'] == 'BinaryOperator' and val['op'] == '=' and hops < 4:
                    val = fn.strip_all_casts(val['c'][1])
                    hops += 1
                from_res = val['k'] == 'DeclRefExpr' and val.get('vid') in res_vids
                field_writes[lhs['d']].append((e, from_res))
    # `m_numGlyphs = n; m_numCharinfo = m_numGlyphs;` -- the second count copied from the first, just set from the result
    for field, ws in field_writes.items():
        for k_, (e, fr) in enumerate(ws):
            if fr:
                continue
            val = fn.strip_all_casts(e['c'][1])
            if val['k'] == 'MemberExpr' and val.get('d') in field_writes and val['d'] != field:
                src = [w for (w, f2) in field_writes[val['d']] if f2 and
                       ((fn.block_of[w['i']] == fn.block_of[e['i']] and fn.pos_of[w['i']] < fn.pos_of[e['i']]) or
                        (fn.block_of[w['i']] != fn.block_of[e['i']] and fn.block_of[w['i']] in fn.dominators()[fn.block_of[e['i']]]))]
                others = [w for (w, f2) in field_writes[val['d']] if not f2]
                if src and not others:
                    ws[k_] = (e, True)
    pdom = fn.postdominators()
    for field, ws in field_writes.items():
        short = field.split('::')[-1]
        for c in calls:
            inst = '%s <- call@%s' % (short, c['ln'])
            cb = fn.block_of[c['i']]
            good = [w for (w, fr) in ws if fr and fn.block_of[w['i']] in pdom[cb]]
            if good:
                run.held('COUNTSYNC', inst, fn.loc(good[0]), '%s set from the consumed count on every path after the call' % short)
            else:
                run.violated('COUNTSYNC', inst, fn.loc(c),
                             '%s is not set from the number of characters consumed after this call: when the loop '
                             'stops at a NUL the segment still reports nChars char-infos/slots' % short)


def textflow(run, fx):
    """the caller's text pointer is only ever handed on -- gr_make_seg -> makeAndInitialize -> Segment::read_text -> the _utf_iterator
    that process_utf_data drives (whose reads NULSTOP / ADVANCEBOUND bound): nobody else looks at the text"""
    chain = [('gr_make_seg', {'(anonymous namespace)::makeAndInitialize'}),
             ('(anonymous namespace)::makeAndInitialize', {'graphite2::Segment::read_text'}),
             ('graphite2::Segment::read_text', {'graphite2::_utf_iterator'})]
    for q, allowed in chain:
        fn = fx.one(q)
        tp = [p_ for p_ in fn.f['params'] if (p_.get('t') or '').replace(' ', '') == 'constvoid*']
        if len(tp) != 1:
            run.broken('TEXTFLOW', '%s text parameter' % q.split('::')[-1], 'expected exactly one `const void *` parameter, found %d' % len(tp), fn.where())
            continue
        vid = tp[0]['vid']
        par = fn.parents()
        uses = [e for _, e in fn.elements() if e['k'] == 'DeclRefExpr' and e.get('vid') == vid]
        bad = None
        for u in uses:
            cur = u['i']
            ok = False
            for _ in range(6):
                ups = par.get(cur) or []
                if not ups:
                    break
                p_ = fn.nodes[ups[0]]
                if p_['k'] in ('CallExpr', 'CXXMemberCallExpr', 'CXXConstructExpr', 'CXXTemporaryObjectExpr', 'CXXFunctionalCastExpr') and \
                        any((p_.get('fq') or '').startswith(a) for a in allowed):
                    ok = True
                    break
                if p_['k'].endswith('CastExpr') and p_['k'] in ('ImplicitCastExpr',) or p_['k'] in ('ParenExpr', 'MaterializeTemporaryExpr', 'CXXBindTemporaryExpr', 'ExprWithCleanups'):
                    cur = p_['i']
                    continue
                if p_['k'] == 'CXXFunctionalCastExpr':
                    cur = p_['i']
                    continue
                break
            if not ok:
                bad = u
                break
        inst = 'text pointer in %s' % q.split('::')[-1]
        if not uses:
            run.broken('TEXTFLOW', inst, 'the text parameter is never used', fn.where())
        elif bad is None:
            run.held('TEXTFLOW', inst, fn.where(), '%d use(s), all forwarded to %s' % (len(uses), sorted(allowed)))
        else:
            run.violated('TEXTFLOW', inst, fn.loc(bad), '%s uses the caller\'s text pointer other than by handing it on to %s: text is read outside the decoder loop, '
                         'whose NUL stop and nChars bound are what keeps reads inside the caller\'s buffer' % (q.split('::')[-1], sorted(allowed)))


def textexec(run, fx):
    """C12's statement itself for UTF-16 and UTF-32 (whose decoders only compare code units), by bounded abstract execution
    (rules/ordint.py) of Segment::read_text with process_utf_data, the iterator, its reference proxy and the codec inlined from their own
    CFGs; appendSlot, the cmap and the feature copy are stubs that record what they are given.  Every NUL-terminated text of 0..3 units
    over the unit classes the decoders distinguish, the buffer ending exactly at the NUL, nChars from 0 to two more than the length:
    no unit beyond the terminating NUL is read; the slots appended carry the ids 0, 1, 2, .. and strictly increasing offsets inside the
    text; their number is at most nChars, equals the count stored into both segment counters, and -- for well-formed text -- is exactly
    min(nChars, characters before the NUL) with the right code points and offsets."""
    import itertools
    from . import ordint as O
    rt = fx.one('graphite2::Segment::read_text')
    PG = 'graphite2::Segment::'
    grec = fx.record('graphite2::Segment')
    encs = {16: (2, [0x41, 0xD7FF, 0xD800, 0xDBFF, 0xDC00, 0xE000]), 32: (4, [0x41, 0xD800, 0x10FFFF, 0x110000])}

    def parse(w, units):
        """well-formed?  [(code point, offset)]"""
        out, i = [], 0
        while i < len(units):
            u = units[i]
            if w == 32:
                if u >= 0x110000:
                    return None
                out.append((u, i))
                i += 1
            elif u < 0xD800 or u > 0xDFFF:
                out.append((u, i))
                i += 1
            elif u <= 0xDBFF and i + 1 < len(units) and 0xDC00 <= units[i + 1] <= 0xDFFF:
                out.append((0x10000 + ((u - 0xD800) << 10) + (units[i + 1] - 0xDC00), i))
                i += 2
            else:
                return None
        return out
    for w, (encv, reps) in encs.items():
        inst = 'gr_make_seg consumes exactly the text (UTF-%d)' % w
        cases, prob = 0, None
        try:
            for n in range(0, 4):
                for units in itertools.product(reps, repeat=n):
                    for nchars in range(0, n + 3):
                        vec = O.Vec([O.Lz([u]) for u in units] + [O.Lz([0])])
                        seg = O.Rec()
                        for f in grec['fields']:
                            seg[PG + f['n']] = None
                        seg[PG + 'm_charinfo'] = O.It(O.Vec([O.Rec() for _ in range(8)]), 0)
                        seg[PG + 'm_numCharinfo'] = nchars        # what Segment::Segment(nChars, ..) records: room for that many
                        calls = []

                        def append(it_, f_, e_, obj, args):
                            calls.append([it_.rv(a) for a in args])
                            return None
                        nat = {'graphite2::Segment::appendSlot': append,
                               'graphite2::Segment::addFeatures': lambda *a: 0,
                               'graphite2::Face::cmap': lambda it_, f_, e_, obj, args: O.Rec(),
                               'graphite2::Cmap::operator[]': lambda *a: 7,
                               'graphite2::Face::findPseudo': lambda *a: 0,
                               'abs': lambda i_, f_, e_, o_, a_: abs(i_.rv(a_[0]))}
                        it = O.Interp(fx, natives=nat)
                        it.lz_arith_ok = True
                        it.MAX_STEPS = 8000
                        desc = 'UTF-%d text [%s] 0000, nChars %d' % (w, ' '.join('%04X' % u for u in units), nchars)
                        try:
                            it.call(rt, seg, [O.Ptr(O.Rec()), O.Ptr(O.Rec()), encv, O.It(vec, 0), nchars])
                        except O.Violation as v:
                            prob = '%s: %s (%s) -- a code unit beyond the terminating NUL is read' % (desc, v.what, v.loc)
                            break
                        cases += 1
                        k = len(calls)
                        ids = [c_[0] for c_ in calls]
                        offs = [c_[4] for c_ in calls]
                        if ids != list(range(k)):
                            prob = '%s: slots appended with ids %s, expected 0..%d in order' % (desc, ids, k - 1)
                            break
                        if k > nchars:
                            prob = '%s: %d characters appended, more than nChars' % (desc, k)
                            break
                        if not all(isinstance(o, int) for o in offs) or any(b <= a for a, b in zip(offs, offs[1:])) or (offs and (offs[0] != 0 or offs[-1] >= max(n, 1))):
                            prob = '%s: code-unit offsets %s are not strictly increasing inside the text' % (desc, offs)
                            break
                        if seg[PG + 'm_numCharinfo'] != k or seg[PG + 'm_numGlyphs'] != k:
                            prob = '%s: %d character(s) appended but the segment counts are set to %r / %r' % (desc, k, seg[PG + 'm_numCharinfo'], seg[PG + 'm_numGlyphs'])
                            break
                        # ill-formed text: the iterator recovers -- one U+FFFD per offending unit -- and the loop still runs to the NUL or nChars
                        steps, svals, i_ = [], [], 0
                        ul = list(units)
                        while i_ < len(ul):
                            u_ = ul[i_]
                            if w == 32:
                                steps.append(i_)
                                svals.append(u_ if u_ < 0x110000 else 0xFFFD)
                                i_ += 1
                            elif u_ < 0xD800 or u_ > 0xDFFF:
                                steps.append(i_)
                                svals.append(u_)
                                i_ += 1
                            elif u_ <= 0xDBFF and i_ + 1 < len(ul) and 0xDC00 <= ul[i_ + 1] <= 0xDFFF:
                                steps.append(i_)
                                svals.append(0x10000 + ((u_ - 0xD800) << 10) + (ul[i_ + 1] - 0xDC00))
                                i_ += 2
                            else:
                                steps.append(i_)
                                svals.append(0xFFFD)
                                i_ += 1
                        if parse(w, ul) is None and (k != min(nchars, len(steps)) or offs != steps[:k]):
                            prob = ('%s: the text holds %d character(s) before the NUL, an ill-formed unit counting as one (U+FFFD); the loop appended %d at offsets %s, expected %d at %s -- it neither ran '
                                    'to the NUL nor to nChars' % (desc, len(steps), k, offs, min(nchars, len(steps)), steps[:min(nchars, len(steps))]))
                            break
                        if parse(w, ul) is None:
                            gotv = [(c_[1].v if isinstance(c_[1], O.Lz) else c_[1]) for c_ in calls]
                            if gotv != svals[:k]:
                                j_ = [x != y for x, y in zip(gotv, svals)].index(True)
                                prob = ('%s: character %d (code unit %d) is %s; the ill-formed unit there stands for U+FFFD and nothing else -- gr_cinfo_unicode_char reports a value that is '
                                        'not a scalar value, and the same text given in another encoding shapes differently' % (desc, j_, offs[j_], ('U+%04X' % gotv[j_]) if isinstance(gotv[j_], int) else repr(gotv[j_]))
                                        if svals[j_] == 0xFFFD else '%s: character %d is %r, expected U+%04X' % (desc, j_, gotv[j_], svals[j_]))
                                break
                        wf = parse(w, list(units))
                        if wf is not None:
                            want = wf[:nchars]
                            got = [((c_[1].v if isinstance(c_[1], O.Lz) else c_[1]), c_[4]) for c_ in calls]
                            if got != want:
                                prob = '%s: well-formed text, expected the characters %s (code point, offset), the loop appended %s' % (desc, [('%X' % a, b) for a, b in want], [(('%X' % a) if isinstance(a, int) else a, b) for a, b in got])
                                break
                    if prob:
                        break
                if prob:
                    break
        except AnalysisBroken as ex:
            run.broken('NULSTOP', inst, str(ex), rt.where())
            continue
        if prob:
            run.violated('NULSTOP', inst, rt.where(), prob)
        else:
            run.held('NULSTOP', inst, rt.where(), '%d abstract executions: NUL-terminated texts of 0..3 units x nChars 0..len+2' % cases)


def ncharsflow(run, fx):
    """TEXTFLOW, the count: "stops at nChars characters or at the NUL, whichever comes first" -- nothing else.  The caller's nChars
    reaches the decoding loop as it was given: gr_make_seg -> makeAndInitialize -> Segment::Segment (room for that many) and
    Segment::read_text -> process_utf_data each receive the parameter itself, and no function on the way assigns to it (a clamp to a
    'reasonable maximum' or to the room the segment has cuts long text short without telling anybody)."""
    chain = [('gr_make_seg', ('(anonymous namespace)::makeAndInitialize',)),
             ('(anonymous namespace)::makeAndInitialize', ('graphite2::Segment::Segment', 'graphite2::Segment::read_text')),
             ('graphite2::Segment::read_text', ('process_utf_data',))]
    for q, callees in chain:
        fn = fx.one(q)
        ps = [p_ for p_ in fn.f['params'] if p_['n'].lower() in ('nchars', 'n_chars')]
        inst = 'nChars in %s' % q.split('::')[-1]
        if len(ps) != 1:
            run.broken('TEXTFLOW', inst, 'parameter nChars not found', fn.where())
            continue
        vid = ps[0]['vid']
        wr = [e for _, e in fn.elements() if (e['k'] in ('BinaryOperator', 'CompoundAssignOperator') and e.get('op', '').endswith('=') and e['op'] not in ('==', '!=', '<=', '>=')
                                              and fn.strip(e['c'][0]).get('vid') == vid) or
              (e['k'] == 'UnaryOperator' and e.get('op') in ('pre++', 'pre--', 'post++', 'post--') and fn.strip(e['c'][0]).get('vid') == vid)]
        if wr:
            run.violated('TEXTFLOW', inst, fn.loc(wr[0]), '%s changes the caller\'s character count (`%s`): the text is no longer read up to nChars characters or the NUL, whichever comes first -- it is cut '
                         'short at a limit the documentation does not mention' % (q.split('::')[-1], fn.render(wr[0])[:80]))
            continue
        bad, n = None, 0
        for _, e in fn.elements():
            if e['k'] not in ('CallExpr', 'CXXMemberCallExpr', 'CXXConstructExpr', 'CXXTemporaryObjectExpr', 'CXXNewExpr'):
                continue
            fq = e.get('fq') or ''
            if not any(fq == c_ or fq.startswith(c_ + '<') or fq.split('<')[0] == c_ for c_ in callees):
                continue
            args = e.get('args') if e.get('args') is not None else (e.get('c') or [])
            mention = [a for a in args if a is not None and any(x['k'] == 'DeclRefExpr' and x.get('vid') == vid for x in fn.walk(a))]
            for a in mention:
                n += 1
                x = fn.strip_all_casts(fn.N(a))
                if not (x['k'] == 'DeclRefExpr' and x.get('vid') == vid):
                    bad = (e, a)
        if bad:
            run.violated('TEXTFLOW', inst, fn.loc(bad[0]), '%s hands on `%s` instead of the caller\'s nChars itself: the count that sizes the segment / bounds the decoding loop is no longer the one the '
                         'application gave' % (q.split('::')[-1], fn.render(fn.N(bad[1]))[:80]))
        elif n < 1:
            run.broken('TEXTFLOW', inst, 'nChars is not handed to %s' % (callees,), fn.where())
        else:
            run.held('TEXTFLOW', inst, fn.where(), 'never assigned; handed on unchanged %d time(s)' % n)


def run(run):
    fx = run.facts('Q0')
    for name_, f_ in (('NULSTOP', nulstop), ('COUNTSYNC', countsync), ('TEXTFLOW', textflow), ('TEXTFLOW', ncharsflow), ('NULSTOP', textexec)):
        try:
            f_(run, fx)
        except AnalysisBroken as ex:          # one rule not recognising a new shape must not keep the others from deciding
            run.broken(name_, 'engine', str(ex))
    from . import c11
    c11.advancebound(run, fx)      # the iterator must not step over a unit it did not vet (the terminating NUL)
    c11.contguard(run, fx)
