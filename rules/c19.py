"""C19 -- line breaking and justification never corrupt the glyph stream.

  RESTORE      Segment::justify narrows m_first/m_last to the line; every non-exempt path from the first such write to an
               exit passes `m_first = oldFirst; m_last = oldLast` with the values saved before the first write
  REVERSEPAIR  a path that executed the entry reverseSlots() executes the exit one, under the same condition; no
               return lies between them (the negative-width early return precedes the entry reversal)
  LINEENDPAIR  each addLineEnd result is handed to delLineEnd under the same flags() & 1 condition; addLineEnd is
               called while m_last is still the segment's true tail
  UNDO         symbolic composition addLineEnd ; delLineEnd on the link heap restores every pre-existing slot's links
  LINEBREAK    gr_slot_linebreak_before writes exactly prev->sibling(0), prev->next(0), p->prev(0)
  NOMUTPOS     (shared with C03) INSERT/DELETE are rejected in justification passes, which run through Silf::runGraphite

Exempt exit: `return -1.0` after addLineEnd returned null (allocation failure only).  Widths / origins being finite is
NOT decided (floats), nor that reverseSlots is an involution on arbitrary diacritic runs (value-dependent relinking).
"""
from . import dom
from . import vmrules as R
from . import c03
from .facts import AnalysisBroken
from .linksym import LinkSym, PathState, show, NULL, SEG
from .util import calls_in, find_decl

LEVEL = 'other'
EXPLANATION = ('Pairing / restoration rules on the CFG of Segment::justify (every path from the narrowing of m_first/m_last to a '
               'non-exempt exit restores the saved values; the entry and exit reversals pair up under an unmodified condition; each '
               'line-end sentinel added is removed), a symbolic composition of addLineEnd and delLineEnd on the abstract link heap '
               'showing that every link of a pre-existing slot is restored, the exact write set of gr_slot_linebreak_before, and the '
               'loader rule that keeps list mutators out of justification passes.  Finiteness of the returned width and origins, and '
               'reverseSlots being its own inverse for every diacritic arrangement, are not decided.')
FLOORS = {'RESTORE': 2, 'REVERSEPAIR': 5, 'LINEENDPAIR': 3, 'UNDO': 2, 'LINEBREAK': 2, 'NOMUTPOS': 4, 'ADVIDX': 2}


def _assign_blocks(fn, lhs_render, rhs_pred=None):
    out = []
    for _, e in fn.elements():
        if e['k'] == 'BinaryOperator' and e['op'] == '=' and fn.render(fn.N(e['c'][0])) == lhs_render:
            if rhs_pred is None or rhs_pred(fn.render(fn.strip_all_casts(e['c'][1]))):
                out.append(e)
    return out


def _reach_exit_avoiding(fn, start_blocks, avoid_blocks, exempt_blocks):
    """is the function exit reachable from start avoiding `avoid`, ignoring exempt blocks?  returns the offending return block or None"""
    seen, st = set(), list(start_blocks)
    while st:
        b = st.pop()
        if b in seen or b in avoid_blocks or b in exempt_blocks:
            continue
        seen.add(b)
        if b == fn.exit:
            return b
        for s in fn.succs(b):
            if s == fn.exit:
                # report the returning block
                if b not in exempt_blocks:
                    return b
            st.append(s)
    return None


def _reach_exit_avoiding_edges(fn, start_blocks, avoid_blocks, exempt_blocks, cut_edges):
    seen, st = set(), list(start_blocks)
    while st:
        b = st.pop()
        if b in seen or b in avoid_blocks or b in exempt_blocks:
            continue
        seen.add(b)
        for idx, s in enumerate(fn.blocks[b]['succ']):
            if s is None or (b, idx) in cut_edges:
                continue
            if s == fn.exit:
                return b
            st.append(s)
    return None


def revwindow(run, fx, rule='REVERSEPAIR'):
    """Segment::justify narrows m_first/m_last to the line and then (through positionSlots) may call reverseSlots, which walks
    to the END OF THE LIST (`while (curr)`).  Inside reverseSlots the value of m_last is therefore not "the last slot of the
    list": it may be read for the trivial-run test `m_first == m_last` only.  (Replayed on the pinned tree: with the
    `d ? d->prev() : m_last` fallback, "ab cd e<U+0301>" shaped with gr_nobidi and justified with pLast = the second slot lost 5 of
    its 8 slots, and a second text hung -- fixed in /repo, see DESIGN.md section 7, F10.)"""
    rs = fx.one('graphite2::Segment::reverseSlots')
    j = fx.one('graphite2::Segment::justify')
    ps = fx.one('graphite2::Segment::positionSlots')
    chain = bool(calls_in(j, 'graphite2::Segment::positionSlots')) and bool(calls_in(ps, 'graphite2::Segment::reverseSlots'))
    if not chain:
        run.held(rule, 'reverseSlots independent of m_last', rs.where(), 'justify no longer reaches reverseSlots through positionSlots: nothing to require', False)
        return
    par = rs.parents()
    bad = []
    nreads = 0
    for _, e in rs.elements():
        if e['k'] == 'MemberExpr' and e.get('d') == 'graphite2::Segment::m_last':
            ok = False
            cur = e['i']
            for _ in range(4):
                ups = par.get(cur) or []
                if not ups:
                    break
                p_ = rs.nodes[ups[0]]
                if p_['k'] == 'BinaryOperator' and p_['op'] == '=' and p_['c'][0] == cur:
                    ok = True           # a write of m_last, not a read
                    break
                if p_['k'] == 'BinaryOperator' and p_['op'] in ('==', '!='):
                    other = p_['c'][1] if rs.strip_all_casts(p_['c'][0]).get('i') == e['i'] or p_['c'][0] == cur else p_['c'][0]
                    if rs.render(rs.strip_all_casts(other)) == 'this->m_first':
                        ok = True       # the 0/1-slot test
                    break
                if p_['k'].endswith('CastExpr') or p_['k'] == 'ParenExpr':
                    cur = p_['i']
                    continue
                break
            nreads += 1
            if not ok:
                bad.append(e)
    if bad:
        run.violated(rule, 'reverseSlots independent of m_last', rs.loc(bad[0]), 'reverseSlots uses the value of m_last (beyond the `m_first == m_last` test) although it runs to the '
                     'end of the list and Segment::justify calls it, through positionSlots, while m_last is narrowed to the end of the LINE: '
                     'the slot it takes for the list end is the line end, links of slots in the middle of the stream are overwritten '
                     '(slots drop out of the stream; walking it may not terminate)')
    else:
        run.held(rule, 'reverseSlots independent of m_last', rs.where(), 'm_last is only compared with m_first and assigned (%d occurrences)' % nreads)


def dirflag(run, fx, rule):
    rs = fx.one('graphite2::Segment::reverseSlots')
    # every write of m_dir in reverseSlots: `m_dir = m_dir ^ K` or `m_dir ^= K` with a constant K
    tog, other = [], []
    for _, e in rs.elements():
        if e['k'] in ('BinaryOperator', 'CompoundAssignOperator') and e['op'] in ('=', '^=', '|=', '&=', '+=', '-=') \
                and rs.render(rs.strip_all_casts(e['c'][0])) == 'this->m_dir':
            k = None
            if e['op'] == '^=':
                k = dom._cval(rs, e['c'][1])
            elif e['op'] == '=':
                r = rs.strip_all_casts(e['c'][1])
                if r['k'] == 'BinaryOperator' and r['op'] == '^':
                    for x, y in ((r['c'][0], r['c'][1]), (r['c'][1], r['c'][0])):
                        if rs.render(rs.strip_all_casts(x)) == 'this->m_dir' and dom._cval(rs, y) is not None:
                            k = dom._cval(rs, y)
            (tog if k is not None else other).append((e, k))
    if len(tog) == 1 and not other and tog[0][1] & 1 == 0:
        run.held(rule, 'reversal keeps the direction bit', rs.loc(tog[0][0]), 'reverseSlots flips only a high bit of m_dir: the entry and exit tests see the same (m_dir & 1)')
    else:
        run.violated(rule, 'reversal keeps the direction bit', rs.where(), 'reverseSlots modifies bit 0 of m_dir: the exit test of justify no longer mirrors the entry test')
    # the "currently reversed" bit is toggled on EVERY path through reverseSlots (also for 0/1-slot runs): callers compare it with the
    # pass direction to decide whether to reverse again, so a path that skips the toggle leaves the flag out of step with the stream
    if len(tog) == 1 and not other:
        tb = rs.block_of[tog[0][0]['i']]
        in_cycle = tb in rs.reachable_from(rs.succs(tb)[0]) if rs.succs(tb) else False
        if tb in rs.dominators()[rs.exit] and not in_cycle and tog[0][1] == 64:
            run.held(rule, 'reversed flag toggled on every path', rs.loc(tog[0][0]), 'm_dir ^ 64 dominates every exit of reverseSlots and is not in a loop')
        else:
            run.violated(rule, 'reversed flag toggled on every path', rs.loc(tog[0][0]), 'reverseSlots can return without toggling bit 6 of m_dir (or toggles it more than once): '
                         'after such a call currdir() disagrees with the actual order of the stream, and the next pass / the final '
                         'ordering run over a stream that is reversed relative to what they assume')


def justify_rules(run, fx):
    j = fx.one('graphite2::Segment::justify')
    # exempt exits: returns dominated by a null test of an addLineEnd result
    exempt = set()
    for b in j.blocks:
        fs = dom.facts_at_block(j, b)
        if any(f[0] in ('this->m_first', 'this->m_last') and f[1] == '==' and f[2] == '0' for f in fs):
            # only when that value came from addLineEnd: checked below through LINEENDPAIR
            exempt.add(b)
    # the `!m_first || !m_last` return: its block is reached from either test; find return blocks with value -1
    for _, e in j.elements():
        if e['k'] == 'ReturnStmt':
            v = j.render(j.strip_all_casts(e['c'][0])) if e.get('c') else ''
            if v in ('-1.0', '-1', '-1.0f') or v.startswith('-1'):
                exempt.add(j.block_of[e['i']])
    # ---- RESTORE
    _, of = find_decl(j, 'oldFirst')
    _, ol = find_decl(j, 'oldLast')
    if of is None or ol is None:
        run.violated('RESTORE', 'saved head/tail', j.where(), 'Segment::justify no longer saves m_first / m_last before narrowing them to the line')
    else:
        narrow_f = [e for e in _assign_blocks(j, 'this->m_first') if j.render(j.strip_all_casts(e['c'][1])) != 'oldFirst']
        narrow_l = [e for e in _assign_blocks(j, 'this->m_last') if j.render(j.strip_all_casts(e['c'][1])) != 'oldLast']
        rest_f = _assign_blocks(j, 'this->m_first', lambda r: r == 'oldFirst')
        rest_l = _assign_blocks(j, 'this->m_last', lambda r: r == 'oldLast')
        for name, narrow, rest, saved in (('m_first', narrow_f, rest_f, of), ('m_last', narrow_l, rest_l, ol)):
            inst = 'restore %s' % name
            if not narrow:
                run.broken('RESTORE', inst, 'no narrowing write of %s found' % name, j.where())
                continue
            if not rest:
                run.violated('RESTORE', inst, j.loc(narrow[0]), 'Segment::justify narrows %s to the line and never restores the saved value: later '
                             'queries and gr_seg_destroy see a truncated stream' % name)
                continue
            # the save must dominate the first narrowing write and read the field itself
            sv = j.render(saved['init']) if saved.get('init') is not None else ''
            if sv != 'this->' + name:
                run.violated('RESTORE', inst, j.where(), 'the saved value is `%s`, not %s' % (sv, name))
                continue
            # ... and the value it reads is the one narrowed away: nothing that rewrites the head/tail (the entry reversal) runs between
            # the save and the narrowing write
            from .util import reaches_avoiding
            savestmt = [d for _, d in j.elements() if d['k'] == 'DeclStmt' and any(x.get('vid') == saved.get('vid') for x in d.get('decls', []))]
            stale = [(r_, n_) for r_ in calls_in(j, 'graphite2::Segment::reverseSlots') for n_ in narrow
                     if savestmt and reaches_avoiding(j, savestmt[0], r_) and reaches_avoiding(j, r_, n_)]
            if stale:
                r_, n_ = stale[0]
                run.violated('RESTORE', inst, j.loc(savestmt[0]), '%s is saved at line %s, but reverseSlots() at line %s rewrites it before it is narrowed at line %s: the value '
                             'restored afterwards is the head/tail of the list as it was BEFORE the reversal, so the closing reversal runs on a wrong window and the stream '
                             'stays reversed / loses slots' % (name, savestmt[0].get('ln'), r_.get('ln'), n_.get('ln')))
                continue
            rb = {j.block_of[e['i']] for e in rest}
            off = None
            for e in narrow:
                nb = j.block_of[e['i']]
                r = _reach_exit_avoiding(j, j.succs(nb) if nb not in rb else [], rb, exempt)
                if r is not None and nb not in rb:
                    off = (e, r)
                    break
            if off:
                e, r = off
                rets = [x for x in j.blocks[r]['el'] if x['k'] == 'ReturnStmt']
                run.violated('RESTORE', inst, j.loc(rets[0]) if rets else j.loc(e), 'a path from `%s` reaches a return without `%s = old%s`: the segment keeps '
                             'the narrowed head/tail after gr_seg_justify returns' % (j.render(e), name, name[2:].capitalize()))
            else:
                run.held('RESTORE', inst, j.loc(rest[0]), 'every non-exempt path from the narrowing write passes %s = old%s' % (name, name[2:].capitalize()))
    # ---- REVERSEPAIR
    revs = sorted(calls_in(j, 'graphite2::Segment::reverseSlots'), key=lambda e: (e['ln'], e['col']))
    if len(revs) != 2:
        run.violated('REVERSEPAIR', 'two reversals', j.where(), 'Segment::justify has %d reverseSlots() calls, expected the entry/exit pair' % len(revs))
    else:
        e1, e2 = revs
        c1 = sorted(set(f[:3] for f in dom.facts_at(j, e1['i'])))
        c2 = sorted(set(f[:3] for f in dom.facts_at(j, e2['i'])))
        c1n = c1
        # facts that hold already before the exit `if` (loop exits etc.) are not part of its guard
        pre2 = set()
        domt = j.dominators()
        cands = []
        for b in domt[j.block_of[e2['i']]]:
            c = j.term_cond(b)
            if c is None:
                continue
            ats = set(dom.norm(j, a, True)[:3] for a, p in dom.atoms(j, c, True)) | set(dom.norm(j, a, p)[:3] for a, p in dom.atoms(j, c, True))
            if ats & set(c1) and b in j.reachable_from(j.block_of[e1['i']]) and b != j.block_of[e1['i']]:
                cands.append(b)
        if cands:
            first = min(cands, key=lambda b: len(domt[b]))
            pre2 = set(f[:3] for f in dom.facts_at_block(j, first))
        c2n = sorted(set(c2) - (pre2 - set(c1)))
        if c1n and c1n == c2n:
            run.held('REVERSEPAIR', 'same condition', j.loc(e2), 'both reversals under %s' % c1n)
        else:
            run.violated('REVERSEPAIR', 'same condition', j.loc(e2), 'the exit reversal is guarded by %s, the entry reversal by %s' % (c2n, c1n))
        b1, b2 = j.block_of[e1['i']], j.block_of[e2['i']]
        # on a path that executed the entry reversal its condition held; the operands are not modified in between
        # (reverseSlots flips only bit 6 of m_dir, checked below), so edges that establish the negation are infeasible
        neg = {'==': '!=', '!=': '=='}
        contra = set((f[0], neg.get(f[1], f[1]), f[2]) for f in c1n)
        infeasible = dom.edges_with(j, lambda f: f[:3] in contra)
        keep = []
        for (b, idx) in infeasible:
            if b1 in j.dominators()[b] or b in j.reachable_from(b1):
                keep.append((b, idx))
        r = _reach_exit_avoiding_edges(j, j.succs(b1), {b2}, exempt, set(keep))
        if r is None:
            run.held('REVERSEPAIR', 'no exit between the reversals', j.loc(e1), 'every non-exempt path from the entry reversal reaches the exit reversal')
        else:
            rets = [x for x in j.blocks[r]['el'] if x['k'] == 'ReturnStmt']
            run.violated('REVERSEPAIR', 'no exit between the reversals', j.loc(rets[0]) if rets else j.loc(e1),
                         'Segment::justify can return after the entry reverseSlots() without re-reversing: the line (or the whole segment) is left '
                         'in reversed order and m_first/m_last swapped')
        # the operands of the condition are not written between the two tests (m_dir bit 0, silf fields)
    dirflag(run, fx, 'REVERSEPAIR')
    revwindow(run, fx, 'REVERSEPAIR')
    # ---- LINEENDPAIR
    adds = sorted(calls_in(j, 'graphite2::Segment::addLineEnd'), key=lambda e: (e['ln'], e['col']))
    dels = sorted(calls_in(j, 'graphite2::Segment::delLineEnd'), key=lambda e: (e['ln'], e['col']))
    if len(adds) != 2 or len(dels) != 2:
        run.violated('LINEENDPAIR', 'two sentinels', j.where(), '%d addLineEnd / %d delLineEnd calls, expected 2 / 2' % (len(adds), len(dels)))
    else:
        fa = [f[:3] for f in dom.facts_at(j, adds[0]['i']) if 'flags()' in f[0]]
        fd = [f[:3] for f in dom.facts_at(j, dels[0]['i']) if 'flags()' in f[0]]
        if fa and fa == fd:
            run.held('LINEENDPAIR', 'same condition', j.loc(dels[0]), 'sentinels added and removed under %s' % fa)
        else:
            run.violated('LINEENDPAIR', 'same condition', j.loc(dels[0]), 'sentinels are added under %s but removed under %s' % (fa, fd))
        # results stored in m_first / m_last and those are what delLineEnd receives
        a_tgt = []
        for a in adds:
            cur = a['i']
            tg = []
            for _ in range(6):
                ps = j.parents().get(cur)
                if not ps:
                    break
                p = j.nodes[ps[0]]
                if p['k'] == 'BinaryOperator' and p['op'] == '=':
                    tg.append(j.render(j.N(p['c'][0])))
                cur = p['i']
            # ... and copies of those (`pSlot = addLineEnd(pSlot); m_first = pSlot;`)
            ab = j.block_of[a['i']]
            for _ in range(3):
                for _, e in j.elements():
                    if e['k'] == 'BinaryOperator' and e['op'] == '=' and j.render(j.strip_all_casts(e['c'][1])) in tg \
                            and (ab in j.dominators()[j.block_of[e['i']]]):
                        l = j.render(j.N(e['c'][0]))
                        if l not in tg:
                            tg.append(l)
            a_tgt.append(tg)
        d_args = [j.render(j.strip_all_casts(d['args'][0])) for d in dels]
        ok = all(any(t in d_args for t in tg) for tg in a_tgt)
        if ok:
            run.held('LINEENDPAIR', 'each sentinel removed', j.loc(dels[0]), 'addLineEnd results kept in %s, delLineEnd(%s)' % (a_tgt, d_args))
        else:
            run.violated('LINEENDPAIR', 'each sentinel removed', j.loc(dels[0]), 'addLineEnd results are stored in %s but delLineEnd receives %s' % (a_tgt, d_args))
        # the sentinel handed to delLineEnd is read from where it was put: if that is a field (m_first / m_last), nothing that can
        # rewrite the field runs between the addLineEnd that filled it and the delLineEnd that reads it
        from .util import reaches_avoiding, field_writes, callers_of
        fw = field_writes(fx)
        for d_ in dels:
            arg = j.strip_all_casts(d_['args'][0])
            if arg['k'] != 'MemberExpr' or arg.get('d') not in ('graphite2::Segment::m_first', 'graphite2::Segment::m_last'):
                continue
            fld = arg['d']
            writers = {fn_.q for fn_, e_, k_ in fw.get(fld, [])}
            may = set(writers)
            for _ in range(6):
                grow = {fn_.q for q_ in list(may) for fn_, e_ in callers_of(fx, q_)} - may
                if not grow:
                    break
                may |= grow
            stores = [e for e in _assign_blocks(j, 'this->' + fld.split('::')[-1]) if any((y.get('fq') or '') == 'graphite2::Segment::addLineEnd' for y in j.walk(e['c'][1]))]
            inst = 'sentinel in %s survives to its removal' % fld.split('::')[-1]
            if not stores:
                continue
            offenders = []
            for c_ in calls_in(j):
                fq = c_.get('fq') or ''
                if fq not in may or fq in ('graphite2::Segment::addLineEnd', 'graphite2::Segment::delLineEnd'):
                    continue
                if fq == 'graphite2::Silf::runGraphite':
                    continue        # the passes run here are >= positionPass: they cannot insert or delete slots (C03 NOMUTPOS), the only way a pass writes the head/tail
                if any(reaches_avoiding(j, s_, c_) for s_ in stores) and reaches_avoiding(j, c_, d_):
                    offenders.append(c_)
            if offenders:
                c_ = offenders[0]
                # the shortest call chain from the offending callee to a function that writes the field directly
                via, seen_, frontier = None, {c_['fq']}, [[c_['fq']]]
                while frontier and via is None:
                    nxt = []
                    for path in frontier:
                        if path[-1] in writers and len(path) > 1:
                            via = path
                            break
                        for g in fx.fns_named(path[-1]):
                            for y in calls_in(g):
                                if y.get('fq') and y['fq'] in may and y['fq'] not in seen_:
                                    seen_.add(y['fq'])
                                    nxt.append(path + [y['fq']])
                    frontier = nxt
                writers = set(via[-1:]) if via else writers
                run.violated('LINEENDPAIR', inst, j.loc(c_), 'Segment::justify stores the line-end sentinel in %s, calls %s -- which can rewrite %s (through %s) -- and then hands '
                             'whatever %s holds to delLineEnd (line %s): on a font with line-end contextuals (Silf flags bit 0) and a direction that makes positionSlots reverse '
                             'the line, a real slot is freed while it is linked and the sentinel stays in the stream'
                             % (fld.split('::')[-1], c_['fq'], fld.split('::')[-1], ' -> '.join(x.split('::')[-1] for x in via) if via else sorted(writers)[:3], fld.split('::')[-1], d_.get('ln')))
            else:
                run.held('LINEENDPAIR', inst, j.loc(d_), 'no call that can rewrite the field between the store of the sentinel and delLineEnd')
        # addLineEnd(NULL) appends after m_last: m_last must still be the saved tail when addLineEnd runs
        lw = [e for e in _assign_blocks(j, 'this->m_last')]
        bad = None
        for a in adds:
            ab = j.block_of[a['i']]
            for w in lw:
                wb = j.block_of[w['i']]
                # a write to m_last that can execute before this addLineEnd call
                before = (wb != ab and ab in j.reachable_from(wb)) or (wb == ab and j.pos_of[w['i']] < j.pos_of[a['i']])
                if before:
                    bad = (a, w)
        if bad:
            a, w = bad
            run.violated('LINEENDPAIR', 'addLineEnd sees the true tail', j.loc(w), 'm_last is overwritten (`%s`) before addLineEnd runs: addLineEnd(NULL) appends the '
                         'sentinel after m_last and delLineEnd later nulls that slot\'s next link, cutting off the slots that followed it' % j.render(w))
        else:
            run.held('LINEENDPAIR', 'addLineEnd sees the true tail', j.loc(adds[0]), 'no write of m_last can precede an addLineEnd call')


def undo(run, fx):
    add = fx.one('graphite2::Segment::addLineEnd')
    dele = fx.one('graphite2::Segment::delLineEnd')
    la = LinkSym(add, 'seg')
    apaths = [p for p in la.run() if getattr(p, 'ret', None) is not None and p.ret != NULL and la.is_null(p, p.ret) is not True]
    if not apaths:
        raise AnalysisBroken('addLineEnd: no path returning a sentinel')
    svid = dele.f['params'][0]
    shapes = 0
    for ap in apaths:
        shapes += 1
        shape = 'insert-before' if la.is_null(ap, ('sym', 'nSlot')) is False else 'append'
        st0 = PathState()
        st0.heap = dict(ap.heap)
        st0.null = dict(ap.null)
        st0.eqs = list(ap.eqs)
        st0.fresh = ap.fresh
        st0.env[('v', svid['vid'], svid['n'])] = ap.ret
        ld = LinkSym(dele, 'seg')
        dpaths = ld.run(st0)
        inst = 'addLineEnd;delLineEnd %s' % shape
        if not dpaths:
            run.broken('UNDO', inst, 'delLineEnd has no feasible path after this addLineEnd path')
            continue
        worst = None
        for dp in dpaths:
            for (o, f), v in dp.heap.items():
                if o[0] == 'fresh' or o == SEG:
                    continue
                want = ld.norm(dp, ('init', o, f))
                if not ld.same(dp, v, want):
                    worst = (o, f, v, want)
        freed = all(any(c[0] == 'freeSlot' for c in dp.calls) for dp in dpaths)
        if worst:
            o, f, v, want = worst
            run.violated('UNDO', inst, dele.where(), 'after adding and removing the line-end sentinel, %s.%s is %s instead of its original %s: the '
                         'stream around the line end is not restored' % (show(o), f, show(v), show(want)))
        elif not freed:
            run.violated('UNDO', inst, dele.where(), 'the sentinel slot is not returned to the free list by delLineEnd')
        else:
            run.held('UNDO', inst, dele.where(), 'every link of a pre-existing slot is back to its original value; sentinel freed (%d delLineEnd paths)' % len(dpaths))
    if shapes < 2:
        run.broken('UNDO', 'shapes', 'expected both the insert-before and the append shape of addLineEnd, found %d' % shapes)


def linebreak(run, fx):
    fn = fx.one('gr_slot_linebreak_before')
    writes = []
    for e in calls_in(fn):
        fq = e.get('fq') or ''
        if e.get('args') and fq in ('graphite2::Slot::next', 'graphite2::Slot::prev', 'graphite2::Slot::sibling', 'graphite2::Slot::child',
                                     'graphite2::Slot::attachTo', 'graphite2::Slot::nextSibling', 'graphite2::Slot::firstChild'):
            a = fn.strip_all_casts(e['args'][0])
            obj = fn.render(fn.deref(e['obj'])).replace('->', '.').replace(' ', '')
            writes.append((obj, fq.split('::')[-1], 0 if fn.is_null(a) else fn.render(a)))
    pn = fn.f['params'][0]['n']
    want = sorted([(pn + '.prev()', 'sibling', 0), (pn + '.prev()', 'next', 0), (pn, 'prev', 0)])
    # the two writes through p->prev() must come before p->prev(NULL) changes what that expression means
    order_ok = True
    seq = [w for w in writes]
    if (pn, 'prev', 0) in seq:
        i = seq.index((pn, 'prev', 0))
        order_ok = all(w[0] != pn + '.prev()' for w in seq[i + 1:])
    if sorted(writes) == want and order_ok:
        run.held('LINEBREAK', 'gr_slot_linebreak_before write set', fn.where(), 'with prev = p->prev(): prev->sibling(0); prev->next(0); p->prev(0)')
    else:
        run.violated('LINEBREAK', 'gr_slot_linebreak_before write set', fn.where(), 'gr_slot_linebreak_before must null exactly the three links across the cut '
                     '(the sibling and next links of the slot just before p, and p\'s prev link): found %s -- a different slot is cut, so slots between it '
                     'and p stay reachable from one side only' % (sorted(writes, key=str),))


def justpool(run, fx):
    """Segment::newJustify carves a block of m_bufSize justification records (stride justSize) into a free list: every record
    address `block + stride * X` formed there has X <= count - 1, with the range of the loop variable taken from its initial
    value and the direction of its steps (or from a dominating comparison), all as linear forms"""
    from . import linear
    fn = fx.one('graphite2::Segment::newJustify')
    allocs = []
    for _, d in fn.elements():
        if d['k'] == 'DeclStmt':
            for x in d.get('decls', []):
                if x.get('init') is None:
                    continue
                c = fn.strip_all_casts(x['init'])
                if c['k'] == 'CallExpr' and (c.get('fq') or '').startswith(('graphite2::grzeroalloc', 'graphite2::gralloc')) and c.get('args'):
                    sz = fn.deref(c['args'][0])
                    if sz['k'] == 'BinaryOperator' and sz.get('op') == '*':
                        allocs.append((x['vid'], fn.render(fn.deref(sz['c'][0]), resolve=True), fn.render(fn.deref(sz['c'][1]), resolve=True), sz))
    if len(allocs) != 1:
        run.broken('UNDO', 'justify record pool', 'expected one stride*count allocation in Segment::newJustify, found %d' % len(allocs), fn.where())
        return
    bvid, f1, f2, sz = allocs[0]
    n = 0
    for _, e in fn.elements():
        if e['k'] != 'BinaryOperator' or e.get('op') != '+' or '*' not in (e.get('t') or ''):
            continue
        base = fn.strip_all_casts(e['c'][0])
        if base['k'] != 'DeclRefExpr' or base.get('vid') != bvid:
            continue
        off = fn.deref(e['c'][1])
        if off['k'] != 'BinaryOperator' or off.get('op') != '*':
            continue
        a_, b_ = fn.render(fn.deref(off['c'][0]), resolve=True), fn.render(fn.deref(off['c'][1]), resolve=True)
        if a_ in (f1, f2):
            stride, X, count = a_, off['c'][1], (f2 if a_ == f1 else f1)
        elif b_ in (f1, f2):
            stride, X, count = b_, off['c'][0], (f2 if b_ == f1 else f1)
        else:
            continue
        n += 1
        inst = 'record address @%s:%s' % (e.get('ln'), e.get('col'))
        xt, xc = linear.lin(fn, X, through_unsigned=True)
        # upper bounds of the variables in X at this site
        ub_terms, ub_c, ok, why = linear.Counter(), xc, True, ''
        for v, coef in xt.items():
            if v == count:
                ub_terms[v] += coef
                continue
            if coef != 1:
                ok, why = False, 'coefficient %d of %s' % (coef, v)
                break
            cands = []
            # (a) a dominating comparison  B - v + c >= 0
            for cond, pol in dom.edge_guards(fn, fn.block_of[e['i']]):
                for at, p in dom.atoms(fn, cond, pol):
                    for t, c in linear.lower_bounds(fn, at, p):
                        if t.get(v) == -1:
                            rest = linear.Counter({k_: c_ for k_, c_ in t.items() if k_ != v})
                            cands.append((rest, c))
            # (b) a variable that only ever steps down from its initial value
            vids = [x for _, x in fn.elements() if x['k'] == 'DeclRefExpr' and x.get('vid') is not None and fn.render(x) == v]
            if vids:
                vid = vids[0]['vid']
                inits = [x_['init'] for _, d in fn.elements() if d['k'] == 'DeclStmt' for x_ in d.get('decls', []) if x_.get('vid') == vid and x_.get('init') is not None]
                steps = []
                for _, u in fn.elements():
                    if not u.get('c') or u['c'][0] is None:
                        continue
                    if (u['k'] == 'UnaryOperator' and u.get('op') in ('pre++', 'post++', 'pre--', 'post--')) or u['k'] == 'CompoundAssignOperator' or \
                            (u['k'] == 'BinaryOperator' and u.get('op') == '='):
                        t_ = fn.strip_all_casts(u['c'][0])
                        if t_['k'] == 'DeclRefExpr' and t_.get('vid') == vid:
                            steps.append(u)
                if len(inits) == 1 and steps and all(u['k'] == 'UnaryOperator' and u['op'] in ('pre--', 'post--') for u in steps):
                    it, ic = linear.lin(fn, inits[0], through_unsigned=True)
                    before_body = any(fn.block_of[u['i']] in fn.dominators()[fn.block_of[e['i']]] and fn.block_of[u['i']] != fn.block_of[e['i']] for u in steps)
                    cands.append((it, ic - (1 if before_body else 0)))
            best = None
            for t, c in cands:
                # the bound must leave count - 1 - (bound + xc) a non-negative constant
                rem = linear.Counter({count: 1})
                for k_, c_ in t.items():
                    rem[k_] -= c_
                rem = {k_: c_ for k_, c_ in rem.items() if c_}
                if not rem:
                    best = c if best is None or c < best else best
            if best is None:
                ok, why = False, 'no bound of `%s` relative to %s' % (v, count)
                break
            ub_terms[count] += 1
            ub_c += best
        if ok:
            slack = -1 - ub_c + (0 if ub_terms.get(count, 0) == 1 else None if ub_terms.get(count, 0) else 0)
            if ub_terms.get(count, 0) == 0:
                slack = 0 if xc == 0 else None       # a constant index: record 0 exists
                if xc != 0:
                    ok, why = False, 'constant index %d is not related to %s' % (xc, count)
        if ok and slack is not None and slack >= 0:
            run.held('UNDO', inst, fn.loc(e), 'index <= %s - 1 (slack %d)' % (count, slack))
        elif ok:
            run.violated('UNDO', inst, fn.loc(e), 'Segment::newJustify forms the address of record `%s` of a block that holds %s records of %s bytes: the index can reach %s %+d, '
                         'one or more records past the end (the last record of the pool gets a next pointer outside the allocation and is handed out later)'
                         % (fn.render(fn.N(X)), count, stride, count, ub_c))
        else:
            run.broken('UNDO', inst, 'cannot bound the record index `%s`: %s' % (fn.render(fn.N(X)), why), fn.loc(e))
    if n < 2:
        run.broken('UNDO', 'justify record pool', 'expected the two record addresses (p, next) of the free-list loop, found %d' % n, fn.where())


def bidicache(run, fx):
    """REVERSEPAIR rests on reverseSlots seeing the SAME classification of a slot (base or combining mark, bidi class 16) every time it
    looks: Segment::getSlotBidiClass computes the class from the glyph attribute once and caches it in the slot.  What it returns on
    the miss is what it cached: the value handed to Slot::setBidiClass is not implicitly narrowed while the wider value is returned
    (an attribute of 528 is class 16 on every later query and 528 on the first: the two reversals of one justify call treat the slot
    differently and the line comes back permuted)."""
    from .cfg import int_type
    fn = fx.one('graphite2::Segment::getSlotBidiClass')
    inst = 'getSlotBidiClass returns what it caches'
    calls = calls_in(fn, 'graphite2::Slot::setBidiClass')
    if len(calls) != 1:
        run.broken('REVERSEPAIR', inst, 'expected one setBidiClass call in getSlotBidiClass, found %d' % len(calls), fn.where())
        return
    a = fn.N(calls[0]['args'][0])
    narrowed = None
    x = a
    while x['k'] == 'ImplicitCastExpr' and x.get('c'):
        inner = fn.N(x['c'][0])
        if x.get('ck') == 'IntegralCast':
            wt, ws = int_type((x.get('t') or '').replace('const ', '')), int_type((inner.get('t') or '').replace('const ', ''))
            if wt and ws and wt[0] < ws[0]:
                narrowed = (inner.get('t'), x.get('t'))
        x = inner
    src = fn.strip_all_casts(a)
    rets = [e for _, e in fn.elements() if e['k'] == 'ReturnStmt' and e.get('c') and fn.strip_all_casts(fn.N(e['c'][0])).get('vid') == src.get('vid') and src.get('vid') is not None]
    rt = int_type((fn.f.get('ret') or '').replace('const ', ''))
    if narrowed and rets and rt and rt[0] > int_type(narrowed[1].replace('const ', ''))[0]:
        run.violated('REVERSEPAIR', inst, fn.loc(calls[0]), 'getSlotBidiClass caches `%s` narrowed from %s to %s and returns the un-narrowed value: the first query of a slot and every later one can '
                     'disagree (a glyph attribute of 528 is 528 once and 16 ever after), so the reversals that bracket a justification classify the same slot differently' % (fn.render(src), narrowed[0], narrowed[1]))
    else:
        run.held('REVERSEPAIR', inst, fn.loc(calls[0]), 'the cached and the returned value have the same width')


def posdirbool(run, fx):
    """REVERSEPAIR: positionSlots compares the stream's current direction -- one bit -- with the direction it is asked for.  justify
    hands it the segment's whole direction byte (rtl bit, mirroring / bidi flags, the 'currently reversed' bit 64), so the value that
    is compared must be a truth value: a `bool` parameter (the conversion at the call collapses the flags), or an expression masked to
    bit 0.  Compared as a byte, 64 != currdir() always holds: the stream is reversed and re-reversed on every call, m_first / m_last are
    rewritten under justify's feet and delLineEnd frees a live slot."""
    fn = fx.one('graphite2::Segment::positionSlots')
    inst = 'positionSlots compares the current direction with a truth value'
    n, bad = 0, None
    for _, e in fn.elements():
        if e['k'] == 'BinaryOperator' and e.get('op') in ('!=', '=='):
            sides = [fn.strip_all_casts(fn.N(c_)) for c_ in e['c']]
            cd = [x for x in sides if x['k'] == 'CXXMemberCallExpr' and (x.get('fq') or '').endswith('Segment::currdir')]
            if len(cd) != 1:
                continue
            other = [x for x in sides if x is not cd[0]][0]
            n += 1
            t = (other.get('t') or '').replace('const ', '')
            masked = other['k'] == 'BinaryOperator' and other.get('op') == '&' and any(fn.strip_all_casts(fn.N(c_)).get('v') == 1 for c_ in other['c'])
            if t != 'bool' and not masked:
                bad = (e, other, t)
    if n < 1:
        run.broken('REVERSEPAIR', inst, 'no comparison with currdir() found in positionSlots', fn.where())
    elif bad:
        e, other, t = bad
        run.violated('REVERSEPAIR', inst, fn.loc(e), 'positionSlots compares currdir() with `%s`, a `%s`: Segment::justify passes the whole direction byte (the reversed bit 64, the mirroring / bidi flags), '
                     'so the comparison fires although the stream already has the wanted order -- an extra pair of reversals rewrites m_first / m_last while justify holds its line-end markers in them' % (fn.render(other), t))
    else:
        run.held('REVERSEPAIR', inst, fn.where(), '%d comparison(s), against a bool' % n)


def posreverse(run, fx):
    """REVERSEPAIR for Segment::positionSlots (justify positions a line through it, with the caller's direction): when it reverses the
    stream on entry it reverses it back on exit.  reverseSlots() toggles the segment's current direction, so the decision for the second
    reversal must be the one taken for the first (a value computed before it), not a fresh evaluation of currdir() / m_dir; and no exit
    lies between the two."""
    fn = fx.one('graphite2::Segment::positionSlots')
    revs = sorted(calls_in(fn, 'graphite2::Segment::reverseSlots'), key=lambda e: (e['ln'], e['col']))
    inst = 'positionSlots re-reverses on the decision taken at entry'
    if len(revs) != 2:
        run.violated('REVERSEPAIR', inst, fn.where(), 'Segment::positionSlots has %d reverseSlots() calls, expected the entry / exit pair' % len(revs))
        return
    e1, e2 = revs
    g1 = dom.edge_guards(fn, fn.block_of[e1['i']])
    g2 = dom.edge_guards(fn, fn.block_of[e2['i']])
    key = lambda g: (g[0] if isinstance(g[0], int) else id(g[0]), g[1])
    # the guard proper of the exit reversal: what it is under that the entry of the function is not
    own2 = [g for g in g2 if key(g) not in {key(x) for x in dom.edge_guards(fn, fn.block_of[e1['i']]) if False}]
    txt = lambda g: (fn.render(fn.N(g[0]) if isinstance(g[0], int) else g[0], resolve=False), g[1])
    t1 = sorted({txt(g) for g in g1})
    t2 = sorted({txt(g) for g in g2 if txt(g) not in {txt(x) for x in g1} or True})
    # anything reverseSlots changes that the exit guard reads afresh
    stale = []
    for g in g2:
        node = fn.N(g[0]) if isinstance(g[0], int) else g[0]
        for x in fn.walk(node):
            if x['k'] == 'CXXMemberCallExpr' and (x.get('fq') or '') in ('graphite2::Segment::currdir', 'graphite2::Segment::dir'):
                stale.append(fn.render(x))
            if x['k'] == 'MemberExpr' and x.get('dk') == 'Field' and x.get('d') in ('graphite2::Segment::m_dir', 'graphite2::Segment::m_first', 'graphite2::Segment::m_last'):
                stale.append(fn.render(x))
    c1 = [t for t in t1]
    c2 = [t for t in sorted({txt(g) for g in g2})]
    common = [t for t in c2 if t in c1]
    if stale:
        run.violated('REVERSEPAIR', inst, fn.loc(e2), 'the exit reversal is decided by evaluating %s again, after the entry reverseSlots() has toggled the direction it reads: the second '
                     'reversal never runs and the line is left in reversed order with m_first / m_last swapped' % sorted(set(stale)))
        return
    own1 = [t for t in c1]
    own2 = [t for t in c2]
    slotparams0 = {p_['n'] for p_ in fn.f['params'] if 'Slot *' in (p_.get('t') or '')}

    def nonempty_test(g):
        node = fn.N(g[0]) if isinstance(g[0], int) else g[0]
        ats = [dom.norm(fn, a_, p_) for a_, p_ in dom.atoms(fn, node, g[1], inline=False, cond_expand=False)]
        return bool(ats) and all(f and f[0] in slotparams0 and f[2] == '0' for f in ats)
    extra2 = [txt(g) for g in g2 if txt(g) not in own1 and not nonempty_test(g)]
    missing2 = [t for t in own1 if t not in own2]
    if not own1 or extra2 or missing2:
        run.violated('REVERSEPAIR', inst, fn.loc(e2), 'the exit reversal is guarded by %s, the entry reversal by %s: the two no longer run on exactly the same calls' % (own2, own1))
        return
    # no return between the two on a path that executed the first
    b1, b2 = fn.block_of[e1['i']], fn.block_of[e2['i']]
    seen, st, esc = set(), list(fn.succs(b1)), None
    contra = set()
    for b_ in fn.blocks:                      # edges on which the entry decision would have been the other way: infeasible after the first reversal
        c_ = fn.term_cond(b_)
        if c_ is None or len(fn.blocks[b_]['succ']) != 2:
            continue
        for t in own1:
            if fn.render(fn.N(c_) if isinstance(c_, int) else c_, resolve=False) == t[0]:
                contra.add((b_, 1 if t[1] else 0))
    # the line has no slots at all (both ends still null after defaulting them): nothing was reordered, nothing to put back
    slotparams = {p_['n'] for p_ in fn.f['params'] if 'Slot *' in (p_.get('t') or '')}
    contra = set(contra) | set(dom.edges_with(fn, lambda f: f[0] in slotparams and f[1] == '==' and f[2] == '0'))
    while st:
        b = st.pop()
        if b in seen or b == b2:
            continue
        seen.add(b)
        if b == fn.exit:
            esc = b
            break
        for idx, s_ in enumerate(fn.blocks[b]['succ']):
            if s_ is not None and (b, idx) not in contra:
                st.append(s_)
    if esc is not None:
        run.violated('REVERSEPAIR', inst, fn.loc(e1), 'Segment::positionSlots can return after the entry reverseSlots() without reversing the stream back')
    else:
        run.held('REVERSEPAIR', inst, fn.loc(e2), 'both reversals under %s (a value fixed before the first), no exit in between' % own1)


def nullwalk(run, fx):
    """"every call returns": the line handed to gr_seg_justify need not contain the slots the walk is aimed at (after gr_slot_linebreak_before
    the segment's last slot lies in another chain, and justify defaults pLast to it), so a walk `s = s->prev()` / `s = s->next()` in
    Segment::positionSlots can run off the end of the chain.  Every dereference of such a walking variable must be dominated by a test
    that it is not null (taken since the step)."""
    fn = fx.one('graphite2::Segment::positionSlots')
    walkers = {}
    for _, e in fn.elements():
        tgt, rhs = None, None
        if e['k'] == 'BinaryOperator' and e['op'] == '=':
            l = fn.strip(e['c'][0])
            if l['k'] == 'DeclRefExpr' and l.get('vid') is not None:
                tgt, rhs = l, fn.strip_all_casts(e['c'][1])
        if tgt is None or rhs is None:
            continue
        # `s = s->prev()`, `s = rtl ? s->prev() : s->next()`: any step of the variable along its own links
        for x in fn.walk(e['c'][1]):
            if x['k'] != 'CXXMemberCallExpr' or (x.get('fq') or '') not in ('graphite2::Slot::prev', 'graphite2::Slot::next') or x.get('args'):
                continue
            ob = fn.strip_all_casts(fn.N(x['obj'])) if x.get('obj') is not None else None
            if ob is not None and ob['k'] == 'DeclRefExpr' and ob.get('vid') == tgt['vid']:
                walkers[tgt['vid']] = tgt['d'].split('::')[-1]
    if len(walkers) < 1:
        run.broken('LINEBREAK', 'walks in positionSlots stop at the end of the chain', 'no `s = s->prev()/next()` walk found in Segment::positionSlots', fn.where())
        return
    bad, n = [], 0
    for _, e in fn.elements():
        ob = None
        if e['k'] == 'CXXMemberCallExpr' and e.get('obj') is not None:
            ob = fn.strip_all_casts(fn.N(e['obj']))
        elif e['k'] == 'MemberExpr' and e.get('arrow') and e.get('dk') == 'Field':
            ob = fn.strip_all_casts(fn.N(e['c'][0]))
        if ob is None or ob['k'] != 'DeclRefExpr' or ob.get('vid') not in walkers:
            continue
        n += 1
        name = walkers[ob['vid']]
        if not any(f[0] == name and f[1] == '!=' and f[2] == '0' for f in dom.facts_at(fn, e['i'])):
            bad.append((e, name))
    if bad:
        e, name = bad[0]
        run.violated('LINEBREAK', 'walks in positionSlots stop at the end of the chain', fn.loc(e), '%s is dereferenced (%s) in a walk `%s = %s->prev()/next()` without a dominating test '
                     'that it is not null: when the aimed-at slot is not on this chain (a line cut off with gr_slot_linebreak_before) the walk runs off the chain and the call crashes'
                     % (name, fn.render(e), name, name))
    else:
        run.held('LINEBREAK', 'walks in positionSlots stop at the end of the chain', fn.where(), '%d dereferences of %d walking variable(s), each under a non-null test' % (n, len(walkers)))


def lineend_exec(run, fx, rule='LINEENDPAIR', maxn=4):
    """LINEENDPAIR by bounded execution (rules/ordint.py): Segment::addLineEnd followed by Segment::delLineEnd of the marker it returned is
    interpreted on every stream of 1..maxn slots, the marker put in front of every slot (a line that starts anywhere in the segment) or
    behind the last one (null argument).  While the marker is in, walking back from the slot behind it reaches the marker and then the
    slot that was in front (prev is kept: the justification pass that runs on the line sees its left context); after the marker is
    removed the stream is exactly what it was -- next from m_first visits every slot once, prev is its exact inverse -- and the marker,
    and only the marker, has been handed to freeSlot."""
    from . import ordint as O
    add, dele = fx.one('graphite2::Segment::addLineEnd'), fx.one('graphite2::Segment::delLineEnd')
    PS, PG = 'graphite2::Slot::', 'graphite2::Segment::'
    srec = fx.record('graphite2::Slot')
    inst = 'a line-end marker goes in and out without a trace (addLineEnd + delLineEnd interpreted)'

    def mkslot(k):
        s_ = O.Rec()
        for f in srec['fields']:
            s_[PS + f['n']] = O.Ptr(None) if f.get('ptr') else 0
        s_['#'] = k
        return s_
    cases = 0
    try:
        for n in range(1, maxn + 1):
            for at in list(range(n)) + [None]:
                slots = [mkslot(i) for i in range(n)]
                for i, sl in enumerate(slots):
                    sl[PS + 'm_next'] = O.Ptr(slots[i + 1]) if i + 1 < n else O.Ptr(None)
                    sl[PS + 'm_prev'] = O.Ptr(slots[i - 1]) if i else O.Ptr(None)
                    sl[PS + 'm_before'] = sl[PS + 'm_after'] = sl[PS + 'm_original'] = i
                seg = O.Rec({PG + 'm_first': O.Ptr(slots[0]), PG + 'm_last': O.Ptr(slots[-1]), PG + 'm_face': O.Ptr(O.Rec({'#face': 1})), PG + 'm_silf': O.Ptr(O.Rec({'#silf': 1}))})
                fresh, freed = [], []

                def newslot(I, f, e, obj, a, fresh=fresh):
                    s_ = mkslot(100 + len(fresh))
                    fresh.append(s_)
                    return O.Ptr(s_)
                nat = {'graphite2::Segment::newSlot': newslot, 'graphite2::Segment::freeSlot': lambda I, f, e, obj, a, freed=freed: freed.append(I.rv(a[0]).rec),
                       'graphite2::Segment::silf': lambda I, f, e, obj, a: O.Ptr(O.Rec({'#silf': 1})), 'graphite2::Silf::endLineGlyphid': lambda I, f, e, obj, a: 7,
                       'graphite2::Face::glyphs': lambda I, f, e, obj, a: O.Rec({'#gc': 1}), 'graphite2::GlyphCache::glyphSafe': lambda I, f, e, obj, a: O.Ptr(None),
                       'graphite2::Slot::setGlyph': lambda I, f, e, obj, a: None}
                desc = '%d slot(s), marker %s' % (n, 'in front of slot #%d' % at if at is not None else 'behind the last slot')
                cases += 1
                it = O.Interp(fx, natives=nat)
                it.MAX_STEPS = 4000
                try:
                    m = it.call(add, seg, [O.Ptr(slots[at]) if at is not None else O.Ptr(None)])
                    if not isinstance(m, O.Ptr) or m.rec is None or len(fresh) != 1 or m.rec is not fresh[0]:
                        return cases, '%s: addLineEnd does not return the marker it made' % desc
                    mk = m.rec
                    if at is not None:
                        # walking back from the slot behind the marker: marker, then the old predecessor
                        if slots[at][PS + 'm_prev'].rec is not mk or mk[PS + 'm_next'].rec is not slots[at]:
                            return cases, '%s: the marker is not linked in front of the slot (prev of #%d / next of the marker)' % (desc, at)
                        want = slots[at - 1] if at else None
                        if mk[PS + 'm_prev'].rec is not want:
                            return cases, ('%s: the marker\'s prev is %s, expected %s -- the way back from the line into the text in front of it is cut, and delLineEnd restores that null into slot #%d'
                                           % (desc, 'null' if mk[PS + 'm_prev'].rec is None else '#%d' % mk[PS + 'm_prev'].rec['#'], 'null' if want is None else '#%d' % want['#'], at))
                    else:
                        if slots[-1][PS + 'm_next'].rec is not mk or mk[PS + 'm_prev'].rec is not slots[-1]:
                            return cases, '%s: the marker is not linked behind the last slot' % desc
                    it2 = O.Interp(fx, natives=nat)
                    it2.MAX_STEPS = 4000
                    it2.call(dele, seg, [O.Ptr(mk)])
                except O.Violation as v:
                    return cases, '%s: %s (%s)' % (desc, v.what, v.loc)
                if len(freed) != 1 or freed[0] is not mk:
                    return cases, '%s: delLineEnd hands %s to freeSlot, expected the marker alone' % (desc, ['#%d' % f_['#'] for f_ in freed if f_ is not None])
                for i, sl in enumerate(slots):
                    nx, pv = sl[PS + 'm_next'].rec, sl[PS + 'm_prev'].rec
                    wn, wp = (slots[i + 1] if i + 1 < n else None), (slots[i - 1] if i else None)
                    if nx is not wn or pv is not wp:
                        return cases, ('%s: after the marker is removed slot #%d has next %s and prev %s, expected %s and %s -- prev is no longer the inverse of next'
                                       % (desc, i, 'null' if nx is None else '#%d' % nx['#'], 'null' if pv is None else '#%d' % pv['#'], 'null' if wn is None else '#%d' % wn['#'], 'null' if wp is None else '#%d' % wp['#']))
    except AnalysisBroken as ex:
        raise
    return cases, None


class _Reached(Exception):
    pass


def justprologue_exec(run, fx):
    """"every call returns": gr_seg_justify documents pFirst and pLast as optional (NULL = the line runs from pSlot to the end of the
    segment).  The prologue of Segment::justify -- up to the first read of a slot's position -- is interpreted (rules/ordint.py) for
    every combination of given / omitted pFirst and pLast, attached / unattached line ends, and both with and without the reversal for
    a direction that differs from the font's: no slot pointer that is null is dereferenced (a member call through a null pointer is
    reported by the interpreter), whatever the order in which the defaults are filled in and the two ends are swapped."""
    from . import ordint as O
    fn = fx.one('graphite2::Segment::justify')
    PS, PG = 'graphite2::Slot::', 'graphite2::Segment::'
    srec, grec = fx.record('graphite2::Slot'), fx.record('graphite2::Segment')
    inst = 'justify fills in an omitted pFirst / pLast before it follows them (interpreted)'
    cases = 0

    def mkslot(k, parent=None):
        s = O.Rec()
        for f in srec['fields']:
            s[PS + f['n']] = O.Ptr(None) if f.get('ptr') else 0
        s['#'] = k
        s[PS + 'm_parent'] = O.Ptr(parent)
        return s
    try:
        for rev in (False, True):
            for gf in (False, True):
                for gl in (False, True):
                    for attached in (False, True):
                        base0, base1 = mkslot(0), mkslot(3)
                        first = mkslot(1, base0 if attached else None)
                        last = mkslot(2, base1 if attached else None)
                        seg = O.Rec()
                        for f in grec['fields']:
                            seg[PG + f['n']] = O.Ptr(None) if f.get('ptr') else 0
                        seg[PG + 'm_first'], seg[PG + 'm_last'] = O.Ptr(first), O.Ptr(last)
                        seg[PG + 'm_dir'] = 1 if rev else 0
                        silf = O.Rec({'#silf': 1})
                        seg[PG + 'm_silf'] = O.Ptr(silf)

                        def stop(I, f, e, obj, a):
                            raise _Reached()

                        def revslots(I, f, e, obj, a, seg=seg):
                            seg[PG + 'm_first'], seg[PG + 'm_last'] = seg[PG + 'm_last'], seg[PG + 'm_first']
                            return None
                        nat = {'graphite2::Segment::silf': lambda I, f, e, obj, a, silf=silf: O.Ptr(silf),
                               'graphite2::Silf::flags': lambda I, f, e, obj, a: 1, 'graphite2::Silf::dir': lambda I, f, e, obj, a: 0,
                               'graphite2::Silf::bidiPass': lambda I, f, e, obj, a: 0, 'graphite2::Silf::numPasses': lambda I, f, e, obj, a: 3,
                               'graphite2::Silf::numJustLevels': stop, 'graphite2::Segment::reverseSlots': revslots,
                               'graphite2::Slot::origin': stop, 'graphite2::Font::scale': lambda I, f, e, obj, a: 1,
                               }
                        it = O.Interp(fx, natives=nat)
                        it.MAX_STEPS = 4000
                        cases += 1
                        desc = 'gr_seg_justify with pFirst %s, pLast %s, line ends %s, text direction %s the font\'s' % ('given' if gf else 'NULL', 'given' if gl else 'NULL',
                                                                                                                             'attached to bases' if attached else 'unattached', 'opposite to' if rev else 'the same as')
                        try:
                            it.call(fn, seg, [O.Ptr(first), O.Ptr(None), 100, 0, O.Ptr(first) if gf else O.Ptr(None), O.Ptr(last) if gl else O.Ptr(None)])
                        except _Reached:
                            continue
                        except O.Violation as v:
                            run.violated('LINEBREAK', inst, fn.where(), '%s: %s (%s) -- the call does not return' % (desc, v.what, v.loc))
                            return
                        raise AnalysisBroken('justify returned before it read a slot position (%s)' % desc)
    except AnalysisBroken as ex:
        run.broken('LINEBREAK', inst, str(ex), fn.where())
        return
    run.held('LINEBREAK', inst, fn.where(), '%d calls' % cases)


def jsonpair(run):
    """UNDO, the build with tracing compiled in: Segment::justify writes one record per call into the face's json log -- it opens an
    object and an array in front of the justification passes and closes them after.  The writer keeps its open contexts on a fixed
    stack, so every path through justify closes exactly what it opened: the possible nesting depths at the function's exit, computed by
    a forward dataflow over `<< json::object / json::array` (+1) and `<< json::close` (-1), are {0}.  (A closing block that runs under a
    narrower condition than the opening one leaves two contexts behind on every such call; some sixty calls later the writer overruns
    its stack.)"""
    fx = run.facts('tracejust')
    fn = fx.one('graphite2::Segment::justify')
    inst = '[tracejust] justify closes every json context it opens, on every path'
    delta = {}
    nops = 0
    for b in fn.blocks:
        d = 0
        for e in fn.blocks[b]['el']:
            if e['k'] == 'CXXOperatorCallExpr' and (e.get('fq') or '').endswith('operator<<'):
                for a in (e.get('args') or [])[1:]:
                    x = fn.strip_all_casts(fn.N(a)) if a is not None else {}
                    nm = (x.get('d') or '').split('::')[-1] if x.get('k') == 'DeclRefExpr' else ''
                    if (x.get('d') or '').startswith('graphite2::json::'):
                        if nm in ('object', 'array'):
                            d += 1
                            nops += 1
                        elif nm == 'close':
                            d -= 1
                            nops += 1
        delta[b] = d
    if nops < 4:
        run.broken('UNDO', inst, 'only %d json open / close manipulators found in the tracing build of Segment::justify' % nops, fn.where())
        return
    # states are (depth, what is known about conditions that test one never-reassigned local, e.g. `if (dbgout)` twice)
    def const_test(b):
        blk = fn.blocks[b]
        t = blk.get('term') or {}
        if len(blk['succ']) != 2 or t.get('cond') is None or t.get('condx') is not None:
            return None
        x = fn.strip_all_casts(fn.N(t['cond']))
        if x['k'] == 'DeclRefExpr' and x.get('vid') is not None and (x.get('vid') in fn.const_init or 'const' in (x.get('t') or '').split('*')[-1]):
            return x['vid']
        return None
    depth = {fn.entry: {(0, ())}}
    work = [fn.entry]
    while work:
        b = work.pop()
        cv = const_test(b)
        for (dp, kn) in list(depth[b]):
            nd = min(9, max(-9, dp + delta[b]))
            known = dict(kn)
            for idx_, s_ in enumerate(fn.blocks[b]['succ']):
                if s_ is None:
                    continue
                k2 = kn
                if cv is not None:
                    want = (idx_ == 0)
                    if cv in known and known[cv] != want:
                        continue
                    kk = dict(known)
                    kk[cv] = want
                    k2 = tuple(sorted(kk.items()))
                cur = depth.setdefault(s_, set())
                if (nd, k2) not in cur:
                    cur.add((nd, k2))
                    work.append(s_)
    at_exit = {d_ for d_, _k in depth.get(fn.exit, set())}
    if at_exit == {0}:
        run.held('UNDO', inst, fn.where(), '%d open / close manipulators; depth 0 at the exit on every path' % nops)
    else:
        run.violated('UNDO', inst, fn.where(), 'with tracing compiled in, Segment::justify can return with %s json context(s) still open (possible depths at its exit: %s): the opening of the '
                     '"justifies" record and its closing run under different conditions, every such call leaves contexts on the writer\'s fixed 128-entry stack, and after some sixty calls '
                     'while logging the writer runs over its own pointers' % (sorted(x for x in at_exit if x != 0), sorted(at_exit)))


def run(run):
    vm = R.get_vm(run)
    fx = vm.fx
    justify_rules(run, fx)
    undo(run, fx)
    justpool(run, fx)
    try:
        from . import c04 as c04_
        cases_, bad_ = c04_.basechain_exec(run, fx)        # Segment::justify walks the chain of bases through nextSibling: it must be one finite chain (shared with C04)
        lk_ = fx.one('graphite2::Segment::linkClusters')
        if bad_:
            run.violated('NOMUTPOS', 'the base chain justify walks is finite and complete (linkClusters interpreted)', lk_.where(), bad_)
        else:
            run.held('NOMUTPOS', 'the base chain justify walks is finite and complete (linkClusters interpreted)', lk_.where(), '%d abstract executions' % cases_)
    except AnalysisBroken as ex:
        run.broken('NOMUTPOS', 'the base chain justify walks is finite and complete (linkClusters interpreted)', str(ex), '')
    inst_le = 'a line-end marker goes in and out without a trace (addLineEnd + delLineEnd interpreted)'
    try:
        cases_, bad_ = lineend_exec(run, fx)
        ale_ = fx.one('graphite2::Segment::addLineEnd')
        if bad_:
            run.violated('LINEENDPAIR', inst_le, ale_.where(), bad_)
        else:
            run.held('LINEENDPAIR', inst_le, ale_.where(), '%d abstract executions' % cases_)
    except AnalysisBroken as ex:
        run.broken('LINEENDPAIR', inst_le, str(ex), '')
    justprologue_exec(run, fx)
    from . import c02 as c02_
    c02_.indexfacts(run, fx, 'UNDO')           # 'every call returns': the glyph cache and the pass array are indexed under their bounds on the paths justify takes (shared with C02)
    c02_.localarrays(run, fx, 'UNDO')          # 'every call returns': the per-level totals of justify are not a fixed stack array (shared with C02)
    from . import c16 as c16_
    from .util import OnlyRules
    c16_.dtorguards(OnlyRules(run, ['OWNFIELD'], {'OWNFIELD': 'UNDO'}), fx)        # 'gr_seg_destroy still releases the whole segment' (shared with C16)
    if not run.cfg_tag:
        try:
            jsonpair(run)
        except AnalysisBroken as ex:
            run.broken('UNDO', '[tracejust] justify closes every json context it opens, on every path', str(ex), '')
    poolsize(run, fx)
    poolcount(run, fx)
    from . import posexec
    posexec.finalise_exec(run, fx, rules=('JUSTADV', 'SHIFTFREE'), ids={'JUSTADV': 'NOMUTPOS', 'SHIFTFREE': 'NOMUTPOS'})      # the space justify adds widens the advance one for one
    try:
        from . import ordint as O2_
        cases_, bad_ = newjustify_exec(run, fx)
        nj_ = fx.one('graphite2::Segment::newJustify')
        if bad_:
            run.violated('UNDO', 'newJustify carves a null-terminated free list (interpreted)', nj_.where(), bad_)
        else:
            run.held('UNDO', 'newJustify carves a null-terminated free list (interpreted)', nj_.where(), '%d abstract executions' % cases_)
    except (AnalysisBroken, O2_.AnalysisBroken) as ex:
        run.broken('UNDO', 'newJustify carves a null-terminated free list (interpreted)', str(ex), '')
    from . import ordint as O_
    try:
        from . import c02
        cases_, bad_ = c02.newslot_exec(run, fx)      # addLineEnd(NULL) takes a slot from newSlot and relies on its next link being null (shared with C02, C03)
        ns_ = fx.one('graphite2::Segment::newSlot')
        if bad_:
            run.violated('LINEENDPAIR', 'newSlot hands out an unlinked slot (interpreted)', ns_.where(), bad_)
        else:
            run.held('LINEENDPAIR', 'newSlot hands out an unlinked slot (interpreted)', ns_.where(), '%d abstract executions' % cases_)
    except O_.AnalysisBroken as ex:
        run.broken('LINEENDPAIR', 'newSlot hands out an unlinked slot (interpreted)', str(ex), '')
    rs_ = fx.one('graphite2::Segment::reverseSlots')
    inst_ = 'reverseSlots: well-formed chain, documented order, its own inverse (interpreted)'
    try:
        cases_, bad_ = reverse_exec(run, fx, 5 if getattr(run, 'tier', 'quick') == 'quick' else 8)
        if bad_:
            run.violated('REVERSEPAIR', inst_, rs_.where(), bad_)
        else:
            run.held('REVERSEPAIR', inst_, rs_.where(), '%d streams x mark placements interpreted, each reversed twice' % cases_)
    except O_.AnalysisBroken as ex:
        run.broken('REVERSEPAIR', inst_, str(ex), rs_.where())
    linebreak(run, fx)
    nullwalk(run, fx)
    posreverse(run, fx)
    posdirbool(run, fx)
    bidicache(run, fx)
    c03.nomutpos(run, vm)
    from . import c02
    c02.advidx(run, fx)      # justify positions with the caller's gr_font: the hinted-advance cache index (shared with C02)
    run.assume('allocation failure (addLineEnd returning NULL) is outside the quantifier: the `return -1.0` exit is exempt')
    run.observe('reverseSlots being an involution for arbitrary diacritic arrangements is value-dependent and not decided')


def poolsize(run, fx, maxlev=8):
    """JUSTPOOL, second half: the records of the pool are big enough for what is stored in them, and the pool never has zero records.
    (a) SlotJustify::size_of(L), interpreted from its own CFG for every level count L = 0..maxlev, gives the int16 capacity of a record;
    Slot::setJustify (with SlotJustify::LoadSlot inlined) and Segment::freeJustify are then interpreted on such a record for every level
    and sub-index they accept: every store lands inside the record (the interpreter reports an index outside the modelled array).
    (b) every value stored in the record count Segment::m_bufSize has lower bound >= 1: newSlot writes newSlots[m_bufSize-1] and
    newJustify takes the block's first record unconditionally."""
    from . import ordint as O
    so = fx.fns_named('graphite2::SlotJustify::size_of')
    if not so:
        run.broken('UNDO', 'justify record size', 'SlotJustify::size_of not found', '')
        return
    so = so[0]
    fj = fx.one('graphite2::Segment::freeJustify')
    sj = fx.one('graphite2::Slot::setJustify')
    gj = fx.one('graphite2::Slot::getJustify')
    PJ, PS, PG, PF = 'graphite2::SlotJustify::', 'graphite2::Slot::', 'graphite2::Segment::', 'graphite2::Silf::'
    jrec = fx.record('graphite2::SlotJustify')
    fields = [f['n'] for f in jrec['fields']]
    if fields != ['next', 'values']:
        run.broken('UNDO', 'justify record layout', 'SlotJustify is expected to be {next, values[]}, found %s' % fields, so.where())
        return
    HDR = 8     # the record's `next` pointer precedes the values (LP64, as the build's sizeof facts)
    cases = 0
    bad = None
    try:
        for L in range(0, maxlev + 1):
            S = O.Interp(fx).call(so, None, [L])
            if not isinstance(S, int):
                raise O.AnalysisBroken('size_of(%d) did not evaluate to a number: %r' % (L, S))
            cap = (S - HDR) // 2 if S >= HDR else 0

            def mkseg():
                silf = O.Rec()
                silf[PF + 'm_numJusts'] = L
                silf[PF + 'm_justs'] = O.It(O.Vec([O.Rec({'graphite2::Justinfo::m_astretch': 1, 'graphite2::Justinfo::m_ashrink': 2, 'graphite2::Justinfo::m_astep': 3, 'graphite2::Justinfo::m_aweight': 4}) for _ in range(L)]), 0)
                seg = O.Rec()
                seg[PG + 'm_silf'] = O.Ptr(silf)
                seg[PG + 'm_freeJustifies'] = O.Ptr(None)
                return seg

            def mkrec():
                r = O.Rec()
                r[PJ + 'next'] = O.Ptr(None)
                r[PJ + 'values'] = O.It(O.Vec([0] * cap), 0)
                return r
            # freeJustify clears the whole record
            lens = []

            def memset_(I, fn, e, obj, args):
                lens.append(I.rv(args[2]))
                return None
            it = O.Interp(fx, natives={'memset': memset_})
            it.call(fj, mkseg(), [O.Ptr(mkrec())])
            cases += 1
            if len(lens) != 1 or not isinstance(lens[0], int):
                raise O.AnalysisBroken('Segment::freeJustify is expected to clear the record with one memset of a computed length, found %r' % (lens,))
            if HDR + lens[0] > S:
                bad = ('Segment::freeJustify clears %d bytes of values in a record for %d justification level(s), but SlotJustify::size_of(%d) = %d leaves room for %d: the memset runs %d byte(s) '
                       'past the record (into the next record of the pool, or past the block for the last one)' % (lens[0], L, L, S, max(S - HDR, 0), HDR + lens[0] - S), fj.where())
                break
            for level in range(0, min(L + 2, 256)):
                for sub in range(0, 5):
                    rec = mkrec()
                    nat = {'graphite2::Segment::newJustify': lambda I, fn, e, obj, args, rec=rec: O.Ptr(rec),
                           'graphite2::Segment::glyphAttr': lambda I, fn, e, obj, args: 0}
                    it = O.Interp(fx, natives=nat)
                    slot = O.Rec()
                    slot[PS + 'm_justs'] = O.Ptr(None)
                    slot[PS + 'm_glyphid'] = 3
                    cases += 1
                    try:
                        it.call(sj, slot, [O.Ptr(mkseg()), level, sub, 7])
                    except O.Violation as v:
                        bad = ('Slot::setJustify(level %d, sub-index %d) on a font with %d justification level(s), record of SlotJustify::size_of(%d) = %d bytes (%d values): %s'
                               % (level, sub, L, L, S, cap, v.what), v.loc)
                        break
                    # the query side: a slot that carries a record answers from it -- for a level the font has
                    rec2 = mkrec()
                    slot2 = O.Rec()
                    slot2[PS + 'm_justs'] = O.Ptr(rec2)
                    slot2[PS + 'm_glyphid'] = 3
                    it2 = O.Interp(fx, natives=nat)
                    cases += 1
                    try:
                        it2.call(gj, slot2, [O.Ptr(mkseg()), level, sub])
                    except O.Violation as v:
                        bad = ('Slot::getJustify(level %d, sub-index %d) on a slot that carries a record, font with %d justification level(s), record of %d values: %s (gr_slot_attr with a '
                               'justification attribute of a level the font does not have reads past the record)' % (level, sub, L, cap, v.what), v.loc)
                        break
                if bad:
                    break
            if bad:
                break
    except O.AnalysisBroken as x:
        run.broken('UNDO', 'justify record size', str(x), so.where())
        return
    inst = 'a justify record holds every value stored in it (levels 0..%d)' % maxlev
    if bad:
        run.violated('UNDO', inst, bad[1], bad[0])
    else:
        run.held('UNDO', inst, so.where(), '%d interpreted stores / clears inside size_of(L) bytes' % cases)


def _lower_bound(fn, n, depth=0):
    """a constant lower bound of integer expression n, or None: unsigned quantities are >= 0, sums and products of non-negative
    quantities add / multiply, a conditional takes the smaller arm (refined by `x ? f(x) : c`: nothing is assumed about f), max() the
    larger argument.  Wrap-around of unsigned arithmetic is not modelled (stated as an assumption by the caller)."""
    n = fn.strip_all_casts(fn.N(n) if isinstance(n, int) else n)
    if depth > 12:
        return None
    if n.get('v') is not None and isinstance(n['v'], int):
        return n['v']
    k = n['k']
    if k == 'IntegerLiteral':
        return int(n.get('v') or 0)
    if k == 'BinaryOperator' and n['op'] in ('+', '*'):
        a, b = _lower_bound(fn, n['c'][0], depth + 1), _lower_bound(fn, n['c'][1], depth + 1)
        if a is None or b is None:
            return None
        if n['op'] == '+':
            return a + b
        return a * b if a >= 0 and b >= 0 else None
    if k == 'BinaryOperator' and n['op'] == '>>':
        a = _lower_bound(fn, n['c'][0], depth + 1)
        return 0 if a is not None and a >= 0 else None
    if k == 'ConditionalOperator':
        a, b = _lower_bound(fn, n['c'][1], depth + 1), _lower_bound(fn, n['c'][2], depth + 1)
        return None if a is None or b is None else min(a, b)
    if k == 'CallExpr' and (n.get('fq') or '').split('::')[-1].split('<')[0] == 'max' and len(n.get('args') or []) == 2:
        a, b = _lower_bound(fn, n['args'][0], depth + 1), _lower_bound(fn, n['args'][1], depth + 1)
        c = [x for x in (a, b) if x is not None]
        return max(c) if c else None
    t = (n.get('t') or '')
    if t.startswith(('unsigned', 'size_t', 'uint', 'graphite2::uint', 'std::size_t')) or t in ('unsigned long', 'unsigned int', 'unsigned short', 'unsigned char'):
        return 0
    return None


def poolcount(run, fx):
    """the growth count of the slot / justify pools (the field multiplied into Segment::newJustify's allocation) is at least 1
    wherever it is stored: newJustify takes the first record of a fresh block unconditionally and newSlot writes element count-1."""
    from .util import field_writes
    F = 'graphite2::Segment::m_bufSize'
    nj = fx.one('graphite2::Segment::newJustify')
    if not any(e['k'] == 'MemberExpr' and e.get('d') == F for _, e in nj.elements()):
        run.broken('UNDO', 'pool growth count', 'Segment::newJustify no longer sizes its block by m_bufSize', nj.where())
        return
    ws = field_writes(fx).get(F, [])
    n = 0
    for fn, e, kind in ws:
        if kind == 'init':
            src = e.get('init')
        elif e['k'] == 'BinaryOperator' and e['op'] == '=':
            src = e['c'][1]
        else:
            src = None
        inst = 'growth count stored in %s @%s' % (fn.q.split('graphite2::')[-1], e.get('ln'))
        n += 1
        lb = _lower_bound(fn, src) if src is not None else None
        if lb is None:
            run.broken('UNDO', inst, 'cannot bound `%s` from below' % fn.render(e)[:80], fn.loc(e))
        elif lb >= 1:
            run.held('UNDO', inst, fn.loc(e), 'lower bound %d' % lb)
        else:
            run.violated('UNDO', inst, fn.loc(e), '`%s` can be %d: Segment::newJustify then allocates a block of zero records and takes its first one (`m_freeJustifies->next` is read, and the '
                         'values written, outside the allocation); Segment::newSlot writes newSlots[m_bufSize - 1]' % (fn.render(e)[:100], lb))
    if n < 2:
        run.broken('UNDO', 'pool growth count', 'expected the constructor initialiser and the assignment in Segment::Segment, found %d stores' % n, nj.where())
    run.assume('unsigned arithmetic in the pool growth count does not wrap (log_binary(0) + 1 is 0: a segment of zero characters never asks for a slot or a justify record)')


def reverse_exec(run, fx, maxn=5):
    """REVERSEPAIR by bounded execution (rules/ordint.py): Segment::reverseSlots is interpreted on every stream of 0..maxn slots with every
    placement of combining marks (bidi class 16; getSlotBidiClass is a native that reads the modelled class).  Afterwards the stream is a
    well-formed doubly linked chain of the same slots (next from m_first visits each once and ends at m_last, prev is its exact inverse),
    in the documented order -- leading marks stay, the clusters (a base and the marks after it) come in reverse order, each cluster kept
    together -- and a second reversal gives back the original order (justify and positionSlots rely on the pair being the identity)."""
    import itertools
    from . import ordint as O
    fn = fx.one('graphite2::Segment::reverseSlots')
    PS, PG = 'graphite2::Slot::', 'graphite2::Segment::'
    cases = 0

    def chain(seg, n):
        out, s, seen, prev = [], seg[PG + 'm_first'], set(), None
        while isinstance(s, O.Ptr) and s.rec is not None:
            if id(s.rec) in seen or len(out) > n + 2:
                return None, 'the next chain from m_first runs into a cycle after %s' % out
            seen.add(id(s.rec))
            p = s.rec[PS + 'm_prev']
            if (p.rec if isinstance(p, O.Ptr) else None) is not prev:
                return None, 'slot #%d: prev is %s, but it is reached from %s' % (s.rec['#'], 'null' if p.rec is None else '#%d' % p.rec['#'], 'm_first' if prev is None else '#%d' % prev['#'])
            out.append(s.rec['#'])
            prev = s.rec
            s = s.rec[PS + 'm_next']
        last = seg[PG + 'm_last']
        if (last.rec if isinstance(last, O.Ptr) else None) is not prev:
            return None, 'm_last is %s, the chain ends at %s' % ('null' if last.rec is None else '#%d' % last.rec['#'], 'nothing' if prev is None else '#%d' % prev['#'])
        return out, None
    for n in range(0, maxn + 1):
        for marks in itertools.product((False, True), repeat=n):
            slots = [O.Rec() for _ in range(n)]
            for k, sl in enumerate(slots):
                sl[PS + 'm_next'] = O.Ptr(slots[k + 1]) if k + 1 < n else O.Ptr(None)
                sl[PS + 'm_prev'] = O.Ptr(slots[k - 1]) if k else O.Ptr(None)
                sl['#'] = k
                sl['#cls'] = 16 if marks[k] else 0
            seg = O.Rec({PG + 'm_first': O.Ptr(slots[0]) if n else O.Ptr(None), PG + 'm_last': O.Ptr(slots[-1]) if n else O.Ptr(None), PG + 'm_dir': 0})
            nat = {'graphite2::Segment::getSlotBidiClass': lambda I, f, e, obj, a: I.rv(a[0]).rec['#cls']}
            lead = 0
            while lead < n and marks[lead]:
                lead += 1
            clusters = []
            for k in range(lead, n):
                if marks[k]:
                    clusters[-1].append(k)
                else:
                    clusters.append([k])
            want = list(range(lead)) + [k for c in reversed(clusters) for k in c]
            if lead == n:
                want = list(range(n))
            desc = '%d slot(s), combining marks at %s' % (n, [k for k in range(n) if marks[k]] or 'none')
            cases += 1
            try:
                it = O.Interp(fx, natives=nat)
                it.MAX_STEPS = 5000
                it.call(fn, seg, [])
                got, err = chain(seg, n)
                if err:
                    return cases, '%s: after reverseSlots %s' % (desc, err)
                if sorted(got) != list(range(n)):
                    return cases, '%s: after reverseSlots the stream holds %s, not every slot exactly once' % (desc, got)
                if got != want:
                    return cases, '%s: reverseSlots gives the order %s, the documented order (clusters reversed, marks after their base) is %s' % (desc, got, want)
                it = O.Interp(fx, natives=nat)
                it.MAX_STEPS = 5000
                it.call(fn, seg, [])
                got2, err = chain(seg, n)
                if err:
                    return cases, '%s: after the second reverseSlots %s' % (desc, err)
                if got2 != list(range(n)):
                    return cases, '%s: reversing twice gives %s, not the original order' % (desc, got2)
                if seg[PG + 'm_dir'] != 0:
                    return cases, '%s: reversing twice leaves m_dir = %r' % (desc, seg[PG + 'm_dir'])
            except O.Violation as v:
                return cases, '%s: %s (%s)' % (desc, v.what, v.loc)
    return cases, None


def newjustify_exec(run, fx):
    """JUSTPOOL by bounded execution: Segment::newJustify with an empty free list is interpreted for every growth count 1..4 and 0..2
    justification levels.  The allocators are natives; a block from grzeroalloc is zero, a block from any other allocator holds marks
    that are neither null nor a record.  Afterwards the record handed out has a null next, and the free list runs through exactly the
    remaining records of the block and ENDS IN NULL -- the last record's next is never written by the carving loop, so it is null only
    if the block came zero-filled (a wild next pointer there is handed out when a line needs one more record than the block has)."""
    from . import ordint as O
    fn = fx.one('graphite2::Segment::newJustify')
    so = fx.fns_named('graphite2::SlotJustify::size_of')
    if not so:
        raise AnalysisBroken('SlotJustify::size_of not found')
    PJ, PG, PF = 'graphite2::SlotJustify::', 'graphite2::Segment::', 'graphite2::Silf::'
    cases = 0

    class Wild:
        pass
    for count in range(1, 5):
        for levels in range(0, 3):
            S = O.Interp(fx).call(so[0], None, [levels])
            blocks = []

            def alloc(I, f, e, obj, a, zero, blocks=blocks, S=S):
                nbytes = I.rv(a[0])
                if not isinstance(nbytes, int) or nbytes % S:
                    raise O.Violation('the pool block is %r bytes, not a whole number of %d-byte records' % (nbytes, S), f.loc(e))
                # byte-addressed block: a record object at every multiple of the record size, padding elsewhere
                recs = O.Vec([O.Rec({PJ + 'next': (O.Ptr(None) if zero else Wild()), PJ + 'values': O.It(O.Vec([0] * ((S - 8) // 2)), 0), '#': j // S}) if j % S == 0 else 'pad'
                              for j in range(nbytes)])
                blocks.append(recs)
                return O.It(recs, 0)
            nat = {'graphite2::grzeroalloc': lambda I, f, e, obj, a: alloc(I, f, e, obj, a, True),
                   'graphite2::gralloc': lambda I, f, e, obj, a: alloc(I, f, e, obj, a, False),
                   'malloc': lambda I, f, e, obj, a: alloc(I, f, e, obj, a, False), 'calloc': lambda I, f, e, obj, a: alloc(I, f, e, obj, [a[0]], True)}
            silf = O.Rec({PF + 'm_numJusts': levels})
            seg = O.Rec({PG + 'm_freeJustifies': O.Ptr(None), PG + 'm_silf': O.Ptr(silf), PG + 'm_bufSize': count, PG + 'm_justifies': O.Vec()})
            it = O.Interp(fx, natives=nat)
            it.MAX_STEPS = 5000
            it.byte_records = S          # `justs + justSize * i` steps through the block in records
            desc = 'newJustify with growth count %d, %d justification level(s)' % (count, levels)
            cases += 1
            try:
                r = it.call(fn, seg, [])
            except O.Violation as v:
                return cases, '%s: %s (%s)' % (desc, v.what, v.loc)
            if len(blocks) != 1:
                return cases, '%s: %d blocks allocated' % (desc, len(blocks))
            recs = blocks[0]

            def rec_of(p):
                if isinstance(p, O.It) and p.vec is recs:
                    if p.idx % S == 0 and 0 <= p.idx < len(recs.items):
                        return recs.items[p.idx]
                    return 'outside'
                if isinstance(p, O.Ptr):
                    return p.rec
                return 'wild'
            first = rec_of(r)
            if not isinstance(first, O.Rec) or first.get('#') != 0:
                return cases, '%s: the record handed out is not the first record of the new block' % desc
            nx = first[PJ + 'next']
            if not (isinstance(nx, O.Ptr) and nx.rec is None):
                return cases, '%s: the record handed out keeps a next link' % desc
            seen, cur = [], seg[PG + 'm_freeJustifies']
            while True:
                rc = rec_of(cur)
                if rc is None:
                    break
                if not isinstance(rc, O.Rec):
                    return cases, ('%s: after the records %s the free list continues with a pointer that is neither null nor a record of the block -- the last record\'s next was never '
                                   'written and the block is not zero-filled: the record after the last one is handed out from wherever that garbage points' % (desc, seen))
                if rc['#'] in seen or len(seen) > count:
                    return cases, '%s: the free list is cyclic' % desc
                seen.append(rc['#'])
                cur = rc[PJ + 'next']
            if seen != list(range(1, count)):
                return cases, '%s: the free list holds the records %s, expected %s' % (desc, seen, list(range(1, count)))
    return cases, None
