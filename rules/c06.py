"""C06 -- passes apply rules with the documented matching and precedence semantics.

Almost all of C06 is a statement about the OUTPUT of rule programs (FSM walk, per-slot constraint evaluation, cursor
movement, equality with a reference semantics): NOT decidable by static analysis.  Decided, as necessary conditions:
  PRECEDENCE     RuleEntry::operator<, evaluated over the 3x3 order types of (sort keys) x (rule addresses), is the strict
                 order "longer sort key first, then lower rule address"; cmpRuleEntry maps it to -1/1/0; the state merge
                 accumulate_rules compares with that operator in both directions and drops equal entries
  FIRSTPASSING   findNDoRule executes the action of the first entry of the candidate list whose constraint passed
  PURECONSTRAINT no opcode handler that the table makes available to constraint code calls a stream mutator, and the
                 loader rejects rules whose constraint is not immutable (E_MUTABLECCODE)
  PASSORDER      Silf::runGraphite's pass index only moves forward, apart from the tabled bidi re-entry
  RECYCLECLEAN   Segment::freeSlot clears the whole user-attribute block of a recycled slot (count * element size)
"""
from itertools import product
from . import dom
from . import vmrules as R
from .facts import AnalysisBroken
from .util import calls_in, find_decl, callers_of

LEVEL = 'other'
EXPLANATION = ('An abstract evaluation of the comparison-only function RuleEntry::operator< over the finite set of order types of '
               'its inputs, structural rules on its three users, the loop-exit structure of findNDoRule, a call-set purity rule '
               'on every opcode handler bound for constraint code, monotonicity of the pass index, and the size expression that '
               'wipes recycled slots.  The matching / precedence OUTPUT of rule programs against a reference semantics is a '
               'run-time fact and is not decided.')
FLOORS = {'PRECEDENCE': 6, 'FIRSTPASSING': 2, 'PURECONSTRAINT': 30, 'PASSORDER': 4, 'RECYCLECLEAN': 3}

MUTATORS = {'graphite2::Slot::setGlyph', 'graphite2::Slot::attachTo', 'graphite2::Slot::child', 'graphite2::Slot::sibling', 'graphite2::Slot::removeChild',
            'graphite2::Slot::setAttr', 'graphite2::Segment::setFeature', 'graphite2::Segment::newSlot', 'graphite2::Segment::freeSlot',
            'graphite2::Segment::extendLength', 'graphite2::Slot::markDeleted', 'graphite2::Slot::markCopied', 'memcpy',
            'graphite2::Slot::firstChild', 'graphite2::Slot::nextSibling', 'graphite2::Slot::userAttrs'}
SETTERS_WITH_ARG = {'graphite2::Slot::next', 'graphite2::Slot::prev', 'graphite2::Slot::before', 'graphite2::Slot::after', 'graphite2::Slot::originate',
                    'graphite2::Segment::first', 'graphite2::Segment::last', 'graphite2::Slot::firstChild', 'graphite2::Slot::nextSibling', 'graphite2::Slot::userAttrs'}


def _ordeval(fn, n, env, order):
    """evaluate a comparison-only boolean expression under an order-type assignment"""
    n = fn.strip(n)
    k = n['k']
    if k == 'ImplicitCastExpr' or k == 'ParenExpr':
        return _ordeval(fn, n['c'][0], env, order)
    if k == 'BinaryOperator' and n['op'] == '||':
        return _ordeval(fn, n['c'][0], env, order) or _ordeval(fn, n['c'][1], env, order)
    if k == 'BinaryOperator' and n['op'] == '&&':
        return _ordeval(fn, n['c'][0], env, order) and _ordeval(fn, n['c'][1], env, order)
    if k == 'UnaryOperator' and n['op'] == '!':
        return not _ordeval(fn, n['c'][0], env, order)
    if k == 'BinaryOperator' and n['op'] in ('<', '>', '<=', '>=', '==', '!='):
        a, b = _role(fn, n['c'][0], env), _role(fn, n['c'][1], env)
        if a is None or b is None or a[0] != b[0] or a[1] == b[1]:
            raise AnalysisBroken('RuleEntry::operator<: comparison between unrelated operands: %s' % fn.render(n))
        o = order[a[0]]                      # order of (left thing) vs (right thing): '<', '=', '>'
        if a[1] == 'R':                      # comparison written right-vs-left: mirror
            o = {'<': '>', '>': '<', '=': '='}[o]
        return {'<': o == '<', '>': o == '>', '<=': o in '<=', '>=': o in '>=', '==': o == '=', '!=': o != '='}[n['op']]
    raise AnalysisBroken('RuleEntry::operator<: not a comparison-only expression: %s' % fn.render(n))


def _role(fn, n, env):
    """('sort'|'rule', 'L'|'R') for an operand"""
    n = fn.strip_all_casts(n)
    if n['k'] == 'DeclRefExpr' and n.get('vid') in env:
        return env[n['vid']]
    t = fn.render(n).replace(' ', '')
    if t in ('this->rule->sort',):
        return ('sort', 'L')
    if t in ('r.rule->sort',):
        return ('sort', 'R')
    if t == 'this->rule':
        return ('rule', 'L')
    if t == 'r.rule':
        return ('rule', 'R')
    return None


def precedence(run, fx):
    lt = fx.one('graphite2::RuleEntry::operator<')
    env = {}
    for _, e in lt.elements():
        if e['k'] == 'DeclStmt':
            for d in e['decls']:
                if d.get('init') is not None:
                    r = _role(lt, d['init'], env)
                    if r:
                        env[d['vid']] = r
    def walk_cfg(order):
        """the value the function returns under one order-type assignment: follow the CFG, deciding every branch from the order"""
        b = lt.entry
        for _ in range(64):
            for e in lt.blocks[b]['el']:
                if e['k'] == 'ReturnStmt' and e.get('c'):
                    v = lt.strip_all_casts(e['c'][0])
                    if v.get('v') is not None and v['k'] != 'BinaryOperator':
                        return bool(v['v'])
                    return _ordeval(lt, e['c'][0], env, order)
            succ = lt.blocks[b]['succ']
            if len(succ) == 1 and succ[0] is not None:
                b = succ[0]
                continue
            c = lt.term_cond(b)
            if len(succ) == 2 and c is not None and None not in succ:
                b = succ[0] if _ordeval(lt, c, env, order) else succ[1]
                continue
            break
        raise AnalysisBroken('RuleEntry::operator<: control flow the order evaluator cannot follow')
    bad = []
    for so, ro in product('<=>', repeat=2):
        got = walk_cfg({'sort': so, 'rule': ro})
        want = (so == '>') or (so == '=' and ro == '<')
        if got != want:
            bad.append((so, ro, got))
    if bad:
        so, ro, got = bad[0]
        run.violated('PRECEDENCE', 'RuleEntry::operator<', lt.where(), 'with sort keys %s and rule addresses %s the operator says %s: the order is no longer "longer sort '
                     'key first, then earlier rule" (%d of 9 order types wrong)' % ('l' + so + 'r', 'l' + ro + 'r', got, len(bad)))
    else:
        run.held('PRECEDENCE', 'RuleEntry::operator<', lt.where(), 'all 9 order types of (sort, address): true iff lsort > rsort or (equal and lower address)')
    # cmpRuleEntry: evaluated over the three order types (a < b, b < a, neither) it must give -1 / 1 / 0
    cf = fx.one('cmpRuleEntry')
    pv = [p_['vid'] for p_ in cf.f['params']]

    def role(x):
        for y in cf.walk(cf.deref(x)):
            y = cf.deref(y)
            if y['k'] == 'DeclRefExpr' and y.get('vid') in pv:
                return 'ab'[pv.index(y['vid'])]
            for z in cf.walk(y):
                if z['k'] == 'DeclRefExpr' and z.get('vid') in pv:
                    return 'ab'[pv.index(z['vid'])]
        return None

    def lt_atom(node, pol):
        n = cf.strip_all_casts(node)
        if n['k'] == 'CXXOperatorCallExpr' and (n.get('fq') or '').endswith('RuleEntry::operator<') and len(n.get('args') or []) == 2:
            r = (role(n['args'][0]), role(n['args'][1]))
            if r in (('a', 'b'), ('b', 'a')):
                return (r[0] + r[1], pol)
        return None

    def outcomes(expr, conds):
        n = cf.strip_all_casts(expr)
        if n['k'] == 'ConditionalOperator' and len(n.get('c') or []) == 3:
            out = []
            for pol, arm in ((True, n['c'][1]), (False, n['c'][2])):
                cs = list(conds)
                for at, p_ in dom.atoms(cf, n['c'][0], pol):
                    cs.append(lt_atom(at, p_))
                out += outcomes(arm, cs)
            return out
        return [(conds, dom._cval(cf, expr))]

    outs = []
    for _, e in cf.elements():
        if e['k'] == 'ReturnStmt' and e.get('c'):
            cs = []
            for cnd, pol in dom.edge_guards(cf, cf.block_of[e['i']]):
                for at, p_ in dom.atoms(cf, cnd, pol):
                    cs.append(lt_atom(at, p_))
            outs += outcomes(e['c'][0], cs)
    ok = bool(outs) and all(c is not None for cs, _ in outs for c in cs)
    got = {}
    if ok:
        for name, asg in (('a<b', {'ab': True, 'ba': False}), ('b<a', {'ab': False, 'ba': True}), ('equal', {'ab': False, 'ba': False})):
            vals = {v for cs, v in outs if all(asg[k] == p_ for k, p_ in cs)}
            got[name] = sorted(vals, key=str)
        ok = got == {'a<b': [-1], 'b<a': [1], 'equal': [0]}
    if ok:
        run.held('PRECEDENCE', 'cmpRuleEntry', cf.where(), 'a < b -> -1, b < a -> 1, neither -> 0 (over RuleEntry::operator<)')
    else:
        run.violated('PRECEDENCE', 'cmpRuleEntry', cf.where(), 'the qsort comparator no longer maps RuleEntry::operator< to -1 / 1 / 0 (a < b, b < a, neither): it gives %s' % (got or outs))
    # qsort of each state's rule list with that comparator
    rs = fx.one('graphite2::Pass::readStates')
    qs = calls_in(rs, 'qsort')
    if qs and 'cmpRuleEntry' in rs.render(qs[0]):
        run.held('PRECEDENCE', 'state rule lists sorted at load', rs.loc(qs[0]), 'qsort(begin, end - begin, sizeof(RuleEntry), &cmpRuleEntry)', False)
    else:
        run.violated('PRECEDENCE', 'state rule lists sorted at load', rs.where(), 'the rule list of each FSM state is no longer sorted with cmpRuleEntry at load')
    # accumulate_rules: both directions of operator< on the two input cursors; an entry present on both sides is emitted once and both
    # cursors move past it.  Roles: the cursors are whatever two locals the merge compares.
    ar = fx.one('graphite2::FiniteStateMachine::Rules::accumulate_rules')
    lts = [e for e in calls_in(ar, 'graphite2::RuleEntry::operator<')]

    def cur_of(x):
        x = ar.strip_all_casts(x)
        if x['k'] == 'UnaryOperator' and x['op'] == '*':
            y = ar.strip_all_casts(x['c'][0])
            if y['k'] == 'DeclRefExpr' and y.get('vid') is not None:
                return y['vid']
        return None
    dirs = set()
    for e in lts:
        p_ = tuple(cur_of(x) for x in e['args'])
        if len(p_) == 2 and None not in p_:
            dirs.add(p_)
    pairs = [d for d in dirs if (d[1], d[0]) in dirs and d[0] != d[1]]
    okd = bool(pairs)
    both = False
    if okd:
        ca, cb = pairs[0]
        incs = {}
        for _, e in ar.elements():
            if e['k'] == 'UnaryOperator' and e['op'] in ('pre++', 'post++'):
                v = ar.strip_all_casts(e['c'][0]).get('vid')
                if v in (ca, cb):
                    incs.setdefault(ar.block_of[e['i']], set()).add(v)
        for blk, vs in incs.items():
            fs = [f[:3] for f in dom.facts_at_block(ar, blk)]
            if vs == {ca, cb} and sum(1 for f in fs if 'operator<' in f[0] and f[1] == '==' and f[2] == '0') >= 2:
                nst = sum(1 for x in ar.blocks[blk]['el'] if (x['k'] == 'BinaryOperator' and x['op'] == '=' or
                                                               (x['k'] == 'CXXOperatorCallExpr' and (x.get('fq') or '').endswith('operator=')))
                          and 'RuleEntry' in (x.get('t') or ''))
                both = nst == 1
    if okd and both:
        run.held('PRECEDENCE', 'accumulate_rules merge', ar.where(), 'merge step compares the two cursors with operator< in both directions; equal entries are emitted once')
    else:
        run.violated('PRECEDENCE', 'accumulate_rules merge', ar.where(), 'the merge of a state\'s rules into the candidate list no longer orders entries with RuleEntry::operator< '
                     'in both directions (%s) / drops duplicates (%s): with equal sort keys the earlier rule is not preferred across FSM states'
                     % (okd, both))


def firstpassing(run, fx):
    """the candidate cursor starts at rules.begin(), is advanced only past an entry whose constraint just failed, and the action
    that is run is the cursor's, under cursor != rules.end()"""
    fn = fx.one('graphite2::Pass::findNDoRule')
    cur = None
    for _, e in fn.elements():
        if e['k'] == 'DeclStmt':
            for d in e.get('decls', []):
                if d.get('init') is not None and d.get('vid') is not None and 'rules.begin()' in fn.render(fn.deref(d['init']), resolve=True):
                    cur = d
    tc = calls_in(fn, 'graphite2::Pass::testConstraint')
    da = calls_in(fn, 'graphite2::Pass::doAction')
    if cur is None or not tc or not da:
        run.violated('FIRSTPASSING', 'findNDoRule', fn.where(), 'findNDoRule no longer walks the candidate list from rules.begin() with testConstraint / doAction '
                     '(cursor %s, %d testConstraint, %d doAction calls)' % (cur and cur['n'], len(tc), len(da)))
        return
    cv, cn = cur['vid'], cur['n']
    uses = lambda x: any(y['k'] == 'DeclRefExpr' and y.get('vid') == cv for y in fn.walk(fn.deref(x))) or \
        any(y['k'] == 'DeclRefExpr' and y.get('vid') in fn.const_init and
            any(z['k'] == 'DeclRefExpr' and z.get('vid') == cv for z in fn.walk(fn.const_init[y['vid']])) for y in fn.walk(x))
    probs = []
    moves = [e for _, e in fn.elements() if ((e['k'] == 'UnaryOperator' and e['op'] in ('pre++', 'post++', 'pre--', 'post--')) or
                                             (e['k'] in ('CompoundAssignOperator', 'BinaryOperator') and e['op'] in ('+=', '-=', '=')))
             and fn.strip_all_casts(e['c'][0]).get('vid') == cv]
    if not moves:
        probs.append('the cursor is never advanced')
    for mv in moves:
        fi = [f[:3] for f in dom.facts_at(fn, mv['i'])]
        if not (mv['k'] == 'UnaryOperator' and '++' in mv['op']):
            probs.append('the cursor is modified other than by ++ at %s' % fn.loc(mv))
        elif not any('testConstraint' in f[0] and f[1] == '==' and f[2] == '0' for f in fi):
            probs.append('the cursor is advanced at %s without the constraint of the entry it leaves having failed' % fn.loc(mv))
    for t in tc:
        if not (t.get('args') and uses(t['args'][0])):
            probs.append('testConstraint is not applied to the cursor\'s rule')
    for d in da:
        fd = [f[:3] for f in dom.facts_at(fn, d['i'])]
        if not any(f[1] == '!=' and ((f[0] == cn and 'rules.end()' in f[2]) or (f[2] == cn and 'rules.end()' in f[0]) or
                                      (f[0] == cn and _is_end(fn, f[2])) or (f[2] == cn and _is_end(fn, f[0]))) for f in fd):
            probs.append('doAction at %s is not dominated by cursor != rules.end()' % fn.loc(d))
        if not (d.get('args') and uses(d['args'][0])):
            probs.append('the action run at %s is not the cursor\'s' % fn.loc(d))
    if not probs:
        run.held('FIRSTPASSING', 'findNDoRule', fn.where(), '%s starts at rules.begin(), advances only past entries whose constraint failed, the action run is its rule\'s' % cn)
    else:
        run.violated('FIRSTPASSING', 'findNDoRule', fn.where(), 'findNDoRule no longer executes the action of the FIRST candidate whose constraint passes: ' + '; '.join(probs[:3]))


def _is_end(fn, name):
    """name is a local initialised from rules.end()"""
    for _, e in fn.elements():
        if e['k'] == 'DeclStmt':
            for d in e.get('decls', []):
                if d.get('n') == name and d.get('init') is not None and 'rules.end()' in fn.render(fn.deref(d['init']), resolve=True):
                    return True
    return False


def pureconstraint(run, vm):
    rows = vm.tables['call']
    n = 0
    for i, r in enumerate(rows):
        h = r['impl'][1]
        if not h:
            continue
        n += 1
        inst = 'constraint opcode %#04x %s' % (i, r['name'])
        if h not in vm.handlers:
            run.broken('PURECONSTRAINT', inst, 'handler %s not found' % h)
            continue
        fn = vm.handlers[h]
        bad = []
        for e in calls_in(fn):
            fq = e.get('fq') or ''
            if fq in MUTATORS and not (fq in SETTERS_WITH_ARG and not e.get('args')):
                bad.append(fq)
            elif fq in SETTERS_WITH_ARG and e.get('args'):
                bad.append(fq)
        if bad:
            run.violated('PURECONSTRAINT', inst, fn.where(), 'handler %s is available to constraint code but calls %s: testing a rule would modify the glyph stream, so a rule '
                         'that does not fire no longer leaves the glyph unchanged' % (h, sorted(set(bad))))
        else:
            run.held('PURECONSTRAINT', inst, fn.where(), '%s calls no stream mutator' % h, bool(calls_in(fn)))
    rr = vm.fx.one('graphite2::Pass::readRules')
    imm = [e for e in calls_in(rr, 'graphite2::vm::Machine::Code::immutable')]
    okm = False
    for e in imm:
        cur = e['i']
        for _ in range(6):
            ps = rr.parents().get(cur)
            if not ps:
                break
            p = rr.nodes[ps[0]]
            if (p.get('fq') or '') == 'graphite2::Error::test' and 'E_MUTABLECCODE' in rr.render(p) or ('48' in rr.render(p) and 'immutable' in rr.render(p)):
                okm = True
            cur = p['i']
    if okm:
        run.held('PURECONSTRAINT', 'loader rejects mutable constraints', rr.where(), 'e.test(!r->constraint->immutable(), E_MUTABLECCODE)')
    else:
        run.violated('PURECONSTRAINT', 'loader rejects mutable constraints', rr.where(), 'Pass::readRules no longer rejects rules whose constraint code is not immutable')
    if n < 30:
        run.broken('PURECONSTRAINT', '*', 'only %d opcodes are bound for constraint code' % n)


def passorder(run, fx):
    fn = fx.one('graphite2::Silf::runGraphite')
    writes = []
    for _, e in fn.elements():
        if e['k'] == 'UnaryOperator' and e['op'] in ('pre++', 'post++', 'pre--', 'post--') and fn.render(fn.N(e['c'][0])) == 'i':
            writes.append(e)
        if e['k'] in ('BinaryOperator', 'CompoundAssignOperator') and e['op'].endswith('=') and e['op'] not in ('==', '!=', '<=', '>=') and fn.render(fn.N(e['c'][0])) == 'i':
            writes.append(e)
    decs = [e for e in writes if '--' in e.get('op', '')]
    incs = [e for e in writes if '++' in e.get('op', '')]
    other = [e for e in writes if e not in decs and e not in incs]
    ok = len(incs) == 1 and not other and len(decs) <= 1
    for d in decs:
        if not any(f[:3] == ('i', '==', 'lbidi') for f in dom.facts_at(fn, d['i'])):
            ok = False
    if ok:
        run.held('PASSORDER', 'pass index', fn.where(), 'i only advances, except the single --i of the bidi re-entry under i == lbidi')
    else:
        run.violated('PASSORDER', 'pass index', fn.where(), 'Silf::runGraphite modifies the pass index other than ++i / the tabled bidi re-entry: passes may run out of font order '
                     '(writes: %s)' % [fn.render(e) for e in writes])


def _userblock_size_ok(fn, size):
    """size is (number of user attributes) * 2 bytes"""
    size = fn.deref(size)
    if size['k'] == 'BinaryOperator' and size['op'] == '*':
        parts = [fn.deref(x) for x in size['c']]
        cnt = [p_ for p_ in parts if p_['k'] == 'CXXMemberCallExpr' and (p_.get('fq') or '').split('::')[-1] in ('numUser', 'numAttrs')]
        k = [dom._cval(fn, x) for x in size['c'] if dom._cval(fn, x) is not None]
        return bool(cnt) and k == [2]
    return False


def recycleclean(run, fx, vm=None):
    """every block operation (memset / memcpy) on a slot's user-attribute array covers all of it: count * sizeof(int16)"""
    sites = [(fx.one('graphite2::Segment::freeSlot'), 'freeSlot wipes user attributes', 'memset')]
    if vm is not None:
        for h in ('put_copy', 'temp_copy'):
            if h in vm.handlers:
                sites.append((vm.handlers[h], '%s copies user attributes' % h.upper(), 'memcpy'))
    for fn, inst, what in sites:
        ms = [e for e in calls_in(fn, what) if any('userAttrs()' in fn.render(fn.deref(a), resolve=True) for a in e['args'][:2])]
        if not ms:
            run.violated('RECYCLECLEAN', inst, fn.where(), 'the user-attribute block is no longer %s' % ('cleared when a slot is recycled' if what == 'memset' else 'copied with the slot'))
            continue
        e = ms[0]
        txt = fn.render(fn.deref(e['args'][2]))
        if _userblock_size_ok(fn, e['args'][2]):
            run.held('RECYCLECLEAN', inst, fn.loc(e), '%s(.., %s): count * sizeof(element)' % (what, txt))
        else:
            run.violated('RECYCLECLEAN', inst, fn.loc(e), 'the size of the %s is `%s`, not (number of user attributes) * 2 bytes: %s' % (
                what, txt, 'a slot recycled by a later INSERT keeps stale user attribute values and constraints that test them take the wrong branch'
                if what == 'memset' else 'the copy carries only part of the user attributes of its source, and constraints that test the others select the wrong rule'))


def sortedlists(run, fx):
    """PRECEDENCE needs every success state's rule list to BE in precedence order: runFSM / accumulate_rules merge lists that are
    assumed sorted, findNDoRule takes the first passing entry.  Pass::readStates sorts each list with qsort(.., cmpRuleEntry): the
    only thing allowed between the store of the list into the state and the sort is the null test of an empty list."""
    fn = fx.one('graphite2::Pass::readStates')
    qs = [e for e in calls_in(fn, 'qsort')]
    inst = 'every state\'s rule list is sorted at load'
    if len(qs) != 1:
        run.broken('PRECEDENCE', inst, 'expected one qsort call in Pass::readStates, found %d' % len(qs), fn.where())
        return
    q = qs[0]
    cmpa = fn.render(fn.strip_all_casts(q['args'][3])) if len(q['args']) == 4 else ''
    if 'cmpRuleEntry' not in cmpa:
        run.violated('PRECEDENCE', inst, fn.loc(q), 'the rule lists are sorted with %s, not with cmpRuleEntry' % cmpa)
        return
    # the store of the list start into the state (State::rules): unconditional in the per-state loop
    st = [e for _, e in fn.elements() if e['k'] == 'BinaryOperator' and e['op'] == '=' and fn.strip(e['c'][0]).get('d') == 'graphite2::State::rules']
    if len(st) != 1:
        run.broken('PRECEDENCE', inst, 'the store into State::rules was not found', fn.where())
        return
    # the branches that every path to the sort must have taken but the (unconditional) store of the list need not: only the test that
    # the list is not null / not empty may stand between them.  Compared as branch conditions, not as derived facts (a conditional
    # definition of `begin` would otherwise show up as extra facts about the state pointer).
    gq = dom.edge_guards(fn, fn.block_of[q['i']])
    gs = dom.edge_guards(fn, fn.block_of[st[0]['i']])
    key = lambda g: (g[0] if isinstance(g[0], int) else id(g[0]), g[1])
    have = {key(g) for g in gs}
    begin = fn.render(fn.strip_all_casts(q['args'][0]))
    count = fn.render(fn.strip_all_casts(q['args'][1]))
    count_res = fn.render(fn.deref(q['args'][1]), resolve=True)

    def harmless(cond, pol):
        ok_all = True
        for a_, p_ in dom.atoms(fn, cond, pol, inline=False, cond_expand=False):      # the test as written, not what its operands' definitions imply
            nf = dom.norm(fn, a_, p_)
            nr = dom.norm(fn, a_, p_, resolve=True)
            good = False
            for f in (nf, nr):
                if not f:
                    continue
                a, op, b = f[:3]
                if a == begin and op == '!=' and b == '0':
                    good = True
                if op in ('!=', '>') and b == '0' and a.replace(' ', '') in (count.replace(' ', ''), count_res.replace(' ', ''), '(end-begin)', 'end-begin'):
                    good = True
                if (a, op, b) in ((begin, '!=', 'end'), ('end', '!=', begin), ('end', '>', begin), (begin, '<', 'end')):
                    good = True
            ok_all = ok_all and good
        return ok_all
    bad = [(fn.render(fn.N(g[0])) if isinstance(g[0], int) else fn.render(g[0]), g[1]) for g in gq if key(g) not in have and not harmless(g[0], g[1])]
    extra = [(fn.render(fn.N(g[0])) if isinstance(g[0], int) else fn.render(g[0]), g[1]) for g in gq if key(g) not in have]
    if bad:
        run.violated('PRECEDENCE', inst, fn.loc(q), 'the sort of a state\'s rule list is skipped unless %s: lists that do not meet this are used in the order the font stores them, '
                     'so "longest sort key first, then earliest rule" no longer holds for them' % (['%s is %s' % (c_, 'true' if p_ else 'false') for c_, p_ in bad],))
    else:
        run.held('PRECEDENCE', inst, fn.loc(q), 'qsort(%s, .., cmpRuleEntry) guarded only by %s' % (begin, extra or 'nothing'))


def passbitsfresh(run, fx):
    """PASSORDER: "passes run over the previous pass's output".  A pass is skipped when the segment's pass bits say none of its glyphs
    has rules in it; Slot::setGlyph merges the bits of every glyph a pass produces, so the bits must be READ INSIDE the pass loop
    (per pass), not hoisted in front of it."""
    from .util import loop_bodies
    fn = fx.one('graphite2::Silf::runGraphite')
    pb = calls_in(fn, 'graphite2::Segment::passBits')
    rg = calls_in(fn, 'graphite2::Pass::runGraphite')
    inst = 'skip-pass bits are read per pass'
    if not pb or not rg:
        run.broken('PASSORDER', inst, 'Silf::runGraphite: passBits() / Pass::runGraphite call not found', fn.where())
        return
    lb = loop_bodies(fn)
    body = set()
    for h, blocks in lb.items():
        if fn.block_of[rg[0]['i']] in blocks:
            body |= blocks if not body else set()
            body = blocks if not body or len(blocks) < len(body) else body
    if not body:
        run.broken('PASSORDER', inst, 'the pass loop around Pass::runGraphite was not found', fn.where())
        return
    outside = [e for e in pb if fn.block_of[e['i']] not in body]
    if outside:
        run.violated('PASSORDER', inst, fn.loc(outside[0]), 'Segment::passBits() is read outside the pass loop: the bits change whenever a pass produces a new glyph (Slot::setGlyph -> '
                     'mergePassBits), so a later pass is skipped on stale bits although an earlier pass just created a glyph it has rules for')
    else:
        run.held('PASSORDER', inst, fn.loc(pb[0]), '%d read(s) of passBits(), all inside the loop over the passes' % len(pb))


def attrsign(run, fx):
    """glyph attributes are signed 16-bit quantities in rule code (constraints such as kern < 0, max(attr, 0)): the one place where the
    unsigned table cell (sparse::mapped_type) becomes signed is the return type of Segment::glyphAttr."""
    from .cfg import int_type
    fn = fx.one('graphite2::Segment::glyphAttr')
    t = int_type(fn.f.get('ret'))
    inst = 'glyph attributes reach the VM sign-extended'
    if t is None:
        run.broken('PRECEDENCE', inst, 'Segment::glyphAttr returns %s (not an integer type)' % fn.f.get('ret'), fn.where())
    elif t[1] and t[0] == 16:
        run.held('PRECEDENCE', inst, fn.where(), 'Segment::glyphAttr returns a signed 16-bit value', False)
    elif t[1] and t[0] > 16:
        # wider signed return: the narrowing to int16 must be explicit in the returned expression
        casts = [x for _, e in fn.elements() if e['k'] == 'ReturnStmt' for x in fn.walk(e['c'][0]) if x['k'].endswith('CastExpr') and int_type(x.get('t')) == (16, True)]
        if casts:
            run.held('PRECEDENCE', inst, fn.where(), 'returns a wider signed type through an explicit int16 conversion', False)
        else:
            run.violated('PRECEDENCE', inst, fn.where(), 'Segment::glyphAttr returns %s without converting the unsigned table cell through int16: negative glyph attributes reach the stack as 65531' % fn.f.get('ret'))
    else:
        run.violated('PRECEDENCE', inst, fn.where(), 'Segment::glyphAttr returns the unsigned type %s: a glyph attribute of -5 reaches the rule code as 65531, so comparisons, min/max and '
                     'division in constraints and actions give the wrong result' % fn.f.get('ret'))


def runfsm_exec(run, fx):
    """PRECEDENCE, the matching side, by bounded execution: Pass::runFSM is interpreted (SlotMap / FiniteStateMachine accessors from their
    own CFGs; accumulate_rules is a native that records the state it is given) on a three-state machine for the rules `a` and `a b`
    (state 1 = after a: success AND transitional, state 2 = after a b: success) over every stream of 1..3 glyphs drawn from a, b, a
    glyph without a column and a glyph id beyond the glyph count.  The rules accumulated and the verdict are those of the walk the
    format describes: success states met so far stay matched when the next glyph is unknown to the pass or the stream ends."""
    import itertools
    from . import ordint as O
    fn = fx.one('graphite2::Pass::runFSM')
    PP, PF, PM, PS, PG = 'graphite2::Pass::', 'graphite2::FiniteStateMachine::', 'graphite2::SlotMap::', 'graphite2::Slot::', 'graphite2::Segment::'
    srec = fx.record('graphite2::Slot')
    prec = fx.record('graphite2::Pass')
    NG = 5                         # glyph ids 0..4 exist; 1 = a (column 0), 2 = b (column 1), 3 has no column; 9 is beyond the glyph count
    cols = [0xFFFF, 0, 1, 0xFFFF, 0xFFFF]
    trans = [0, 0,   1, 0,   0, 2]          # 3 transitional states x 2 columns: 0 -> (a:0? ...) filled below
    # state 0 = start, 1 = after a, 2 = after a b (final: not transitional).  numTransition = 2 (states 0 and 1 have rows)
    trans = [1, 0,    0, 2]
    cases = 0
    for n in range(1, 4):
        for gl in itertools.product((1, 2, 3, 9), repeat=n):
            slots = []
            for i, g in enumerate(gl):
                s_ = O.Rec()
                for f in srec['fields']:
                    s_[PS + f['n']] = O.Ptr(None) if f.get('ptr') else 0
                s_[PS + 'm_glyphid'] = g
                s_['#'] = i
                slots.append(s_)
            for i, s_ in enumerate(slots):
                s_[PS + 'm_next'] = O.Ptr(slots[i + 1]) if i + 1 < n else O.Ptr(None)
                s_[PS + 'm_prev'] = O.Ptr(slots[i - 1]) if i else O.Ptr(None)
            pas = O.Rec()
            for f in prec['fields']:
                pas[PP + f['n']] = O.Ptr(None) if f.get('ptr') else 0
            states = O.Vec([O.Rec({'#state': k}) for k in range(3)])
            pas[PP + 'm_cols'] = O.It(O.Vec(list(cols)), 0)
            pas[PP + 'm_transitions'] = O.It(O.Vec(list(trans)), 0)
            pas[PP + 'm_startStates'] = O.It(O.Vec([0]), 0)
            pas[PP + 'm_states'] = O.It(states, 0)
            pas[PP + 'm_numGlyphs'], pas[PP + 'm_numTransition'], pas[PP + 'm_numColumns'], pas[PP + 'm_successStart'] = NG, 2, 2, 1
            pas[PP + 'm_maxPreCtxt'] = pas[PP + 'm_minPreCtxt'] = 0
            mapvec = O.Vec([O.Ptr(None)] * 70)
            smap = O.Rec({PM + 'segment': O.Rec(), PM + 'm_slot_map': O.It(mapvec, 0), PM + 'm_precontext': 0, PM + 'm_size': 0,
                          PM + 'm_highwater': O.Ptr(None), PM + 'm_highpassed': False, PM + 'm_maxSize': 10, PM + 'm_dir': 0})
            acc = []

            def accumulate(I, f, e, obj, a, acc=acc):
                st_ = I.rv(a[0])
                acc.append(st_['#state'])
                return None
            rules = O.Rec({'#rules': 1})
            fsm = O.Rec({PF + 'slots': smap, PF + 'rules': rules, PF + 'dbgout': O.Ptr(None)})
            nat = {'graphite2::FiniteStateMachine::Rules::accumulate_rules': accumulate, 'graphite2::FiniteStateMachine::Rules::clear': lambda I, f, e, obj, a: None}
            it = O.Interp(fx, natives=nat)
            it.MAX_STEPS = 6000
            cases += 1
            desc = 'glyph stream %s (1 = a, 2 = b, 3 = no column in this pass, 9 = beyond the glyph count), rules `a` and `a b`' % (list(gl),)
            try:
                r = it.call(fn, pas, [fsm, O.Ptr(slots[0])])
            except O.Violation as v:
                return cases, '%s: %s (%s)' % (desc, v.what, v.loc)
            # the walk the format describes
            want, state = [], 0
            for g in gl:
                if g >= NG or cols[g] == 0xFFFF or state >= 2:
                    break
                state = trans[state * 2 + cols[g]]
                if state >= 1:
                    want.append(state)
                if state == 0:
                    break
            if acc != want:
                return cases, '%s: the success states accumulated are %s, expected %s' % (desc, acc, want)
            if want and not r:
                return cases, ('%s: runFSM answers "no match" although it passed the success state(s) %s -- the rule(s) matched so far are thrown away because of the glyph that follows them'
                               % (desc, want))
            if smap[PM + 'm_size'] < 1:
                return cases, '%s: no slot was pushed into the slot map' % desc
    return cases, None


DIR_READERS = {
    'graphite2::Face::runGraphite': 'mirrors a right-to-left text once, before / without a bidi pass',
    'graphite2::Silf::runGraphite': 'the same for a font with a bidi pass; compares the stream\'s current order with the pass direction',
    'graphite2::Slot::getAttr': 'gr_slatDir: the attribute a rule may READ is the direction of the text',
    'graphite2::Segment::justify': 'puts the line into pass order and back',
    'graphite2::Segment::finalise': 'the final positioning restores the text order',
    'graphite2::Segment::reverseSlots': 'toggles the "currently reversed" bit',
    'graphite2::Segment::currdir': 'the order the stream is in right now',
    'graphite2::Segment::doMirror': 'mirroring',
    'graphite2::Segment::linkClusters': 'links the bases of the finished stream in text order',
    'gr_seg_justify': 'API',
}


def posdirsource(run, fx):
    """PASSORDER: Segment::positionSlots lays the stream out in the direction it is TOLD and first reverses it when that differs from
    the order the stream is in.  Every caller therefore tells it a direction that describes the stream at that moment -- the current
    order (Segment::currdir()), the direction of the pass that is running (SlotMap::dir()), the font's direction once all passes have
    run (Silf::dir(), Segment::finalise), or justify's own whole direction byte -- never the bare direction of the TEXT (m_dir & 1): for
    text shaped against the font's direction the stream is laid out the wrong way round and every shift.x is mirrored."""
    OK = ('graphite2::Segment::currdir', 'graphite2::SlotMap::dir', 'graphite2::Silf::dir')
    n, bad = 0, None
    for fn in fx.all_fns():
        if not fn.file.startswith('src/') or fn.f.get('implicit'):
            continue
        for e in calls_in(fn, 'graphite2::Segment::positionSlots'):
            args = e.get('args') or []
            if len(args) < 4 or args[3] is None:
                continue
            n += 1
            a = fn.strip_all_casts(fn.N(args[3]))
            for _hop in range(4):           # a never-reassigned local stands for its initialiser; `x != 0` is x as a truth value
                if a['k'] == 'DeclRefExpr' and a.get('vid') in fn.const_init:
                    a = fn.strip_all_casts(fn.N(fn.const_init[a['vid']]))
                elif a['k'] == 'BinaryOperator' and a.get('op') == '!=' and any(fn.strip_all_casts(fn.N(c_)).get('v') == 0 for c_ in a['c']):
                    a = [fn.strip_all_casts(fn.N(c_)) for c_ in a['c'] if fn.strip_all_casts(fn.N(c_)).get('v') != 0][0]
                else:
                    break
            if a['k'] in ('CXXMemberCallExpr', 'CallExpr') and (a.get('fq') or '') in OK:
                continue
            if a['k'] == 'MemberExpr' and a.get('d') == 'graphite2::Segment::m_dir' and fn.q == 'graphite2::Segment::justify':
                continue
            if a['k'] == 'CXXDefaultArgExpr' or a.get('v') is not None:
                continue
            bad = bad or (fn, e, a)
    inst = 'positionSlots is told a direction that describes the stream'
    if n < 8:
        run.broken('PASSORDER', inst, 'only %d positionSlots calls with an explicit direction found' % n)
    elif bad:
        fn, e, a = bad
        run.violated('PASSORDER', inst, fn.loc(e), '%s hands positionSlots the direction `%s`: that is neither the order the stream is in (currdir()), nor the running pass\' direction, nor the font\'s -- '
                     'when the text runs against the font the stream is reversed once too often for the layout and every horizontal shift comes out mirrored' % (fn.q.split('graphite2::')[-1], fn.render(a)))
    else:
        run.held('PASSORDER', inst, '', '%d calls; sources: currdir(), SlotMap::dir(), Silf::dir(), justify\'s m_dir' % n)


def dirreaders(run, fx):
    """PASSORDER: passes run on the stream in PASS order (the engine reverses the stream between passes when the text runs the other
    way), so what a rule action does -- attach, shift, kern -- depends on the direction of the slot map (the pass), never on the direction
    of the text.  Who may read Segment::dir() / m_dir is therefore a closed list: the drivers that decide about reversal and mirroring,
    and the read-only slot attribute gr_slatDir.  (`(seg->dir() & 1)` in Slot::setAttr's attach.to default picks the wrong side of the
    base whenever right-to-left text is shaped with a left-to-right font.)"""
    readers = {}
    for fn in fx.all_fns():
        if not fn.file.startswith('src/') or fn.f.get('implicit'):
            continue
        for _, e in fn.elements():
            hit = ((e.get('fq') or '') == 'graphite2::Segment::dir' and e['k'] in ('CXXMemberCallExpr', 'CallExpr')) or \
                  (e['k'] == 'MemberExpr' and e.get('d') == 'graphite2::Segment::m_dir')
            if hit and fn.q != 'graphite2::Segment::dir':
                readers.setdefault(fn.q, e if 'ln' in e else None)
                readers[fn.q] = readers[fn.q] or e
    inst = 'the direction of the text is read only by the reversal / mirroring drivers and gr_slatDir'
    if len(readers) < 3:
        run.broken('PASSORDER', inst, 'only %d readers of Segment::dir() / m_dir found' % len(readers))
        return
    def tabled(q, depth=0):
        # a helper that only the tabled readers call reads for them (`runsReversed(seg)` extracted from justify)
        if q in DIR_READERS or q.startswith('graphite2::Segment::Segment'):
            return True
        if depth > 3:
            return False
        cs = {f_.q for f_, _e in callers_of(fx, q)}
        return bool(cs) and all(tabled(c_, depth + 1) for c_ in cs)
    bad = sorted(q for q in readers if not tabled(q))
    if bad:
        fn = fx.fns_named(bad[0])[0]
        e = readers[bad[0]]
        run.violated('PASSORDER', inst, fn.loc(e) if e is not None else fn.where(), '%s reads the direction of the TEXT (Segment::dir()): rule actions and positioning helpers run on the stream in pass order and '
                     'may only depend on the direction of the pass (SlotMap::dir()); with right-to-left text on a left-to-right font (or the reverse) the two differ and the result is '
                     'mirrored -- e.g. attach.to defaults the attachment point to the wrong side of the base' % bad[0])
    else:
        run.held('PASSORDER', inst, '', '%d readers, all tabled: %s' % (len(readers), sorted(q.split('::')[-1] for q in readers)))


def analyse_exec(run, fx):
    """ATTRSEM, "a rule's actions see the slots as they were when the rule matched": the loader's per-rule analysis
    (decoder::analyse_opcode) marks every context position whose slot an action overwrites as CHANGED, which is what makes the loader
    put a TEMP_COPY in front so that later references to that position still read the old glyph.  The function is interpreted
    (rules/ordint.py; set_changed / set_ref from their own CFGs) at context position 2 for every opcode that replaces the glyph of the
    current slot -- PUT_GLYPH, PUT_GLYPH_8BIT_OBS, PUT_SUBS, PUT_SUBS_8BIT_OBS, and PUT_COPY with slot operands -2..2: afterwards the
    position is marked changed, except for PUT_COPY 0 (a slot copied onto itself), and a marked rule is flagged as modifying."""
    from . import ordint as O
    fn = fx.one('graphite2::vm::Machine::Code::decoder::analyse_opcode')
    PD = 'graphite2::vm::Machine::Code::decoder::'
    PCd = 'graphite2::vm::Machine::Code::'
    crec = fx.raw['records'].get('(anonymous namespace)::context')
    frec = [v for k, v in fx.raw['records'].items() if k.startswith('(anonymous namespace)::context::')]
    inst = 'analyse_opcode marks the slot a PUT_* action overwrites as changed (interpreted)'
    ops = {}
    for e_ in fx.raw['enums'].values():
        for c_ in e_.get('consts', []):
            if c_.get('n') in ('PUT_GLYPH', 'PUT_GLYPH_8BIT_OBS', 'PUT_SUBS', 'PUT_SUBS_8BIT_OBS', 'PUT_COPY'):
                ops[c_['n']] = c_['v']
    if crec is None or len(frec) != 1 or len(ops) != 5 or 'changed' not in [f['n'] for f in frec[0]['fields']]:
        run.broken('ATTRSEM', inst, 'the context record of the rule analysis (flags.changed) or the PUT_* opcodes were not found', fn.where())
        return
    CQ, FQ = crec['q'] + '::', frec[0]['q'] + '::'
    sc_ = fx.fns_named('graphite2::vm::Machine::Code::decoder::set_changed')
    for f_ in sc_:
        for _, e_ in f_.elements():
            for x_ in f_.walk(e_):
                if x_.get('k') == 'MemberExpr' and (x_.get('d') or '').endswith('::changed'):
                    FQ = x_['d'][:-len('changed')]          # the spelling member expressions use for the unnamed struct
    cases = 0
    try:
        for name, opc in sorted(ops.items()):
            for a0 in ((-2, -1, 0, 1, 2) if name in ('PUT_COPY', 'PUT_SUBS', 'PUT_SUBS_8BIT_OBS') else (0,)):
                ctxs = O.Vec([O.Rec({CQ + 'codeRef': 0, CQ + 'flags': O.Rec({FQ + f['n']: 0 for f in frec[0]['fields']})}) for _ in range(8)])
                code = O.Rec({PCd + '_modify': False, PCd + '_delete': False, PCd + '_instr_count': 3})
                dec = O.Rec({PD + '_code': code, PD + '_slotref': 2, PD + '_contexts': O.It(ctxs, 0), PD + '_max_ref': 0, PD + '_out_index': 0, PD + '_out_length': 4,
                             PD + '_stack_depth': 0, PD + '_in_ctxt_item': False, PD + '_passtype': 0})
                args = O.Vec([a0, 0, 0, 0])
                it = O.Interp(fx)
                it.MAX_STEPS = 2000
                cases += 1
                it.call(fn, dec, [opc, O.It(args, 0)])
                ch = ctxs.items[2][CQ + 'flags'][FQ + 'changed']
                want = not (name == 'PUT_COPY' and a0 == 0)
                desc = '%s%s at context position 2' % (name, (' %d' % a0) if name in ('PUT_COPY', 'PUT_SUBS', 'PUT_SUBS_8BIT_OBS') else '')
                if want and not ch:
                    run.violated('ATTRSEM', inst, fn.where(), '%s: the action overwrites the slot but the analysis does not mark the position as changed: no TEMP_COPY is placed in front, and a later action of '
                                 'the same rule that refers back to this position reads the NEW glyph and attributes instead of the ones the rule matched' % desc)
                    return
                if want and not code[PCd + '_modify']:
                    run.violated('ATTRSEM', inst, fn.where(), '%s: the rule is not flagged as modifying the stream' % desc)
                    return
    except O.Violation as v:
        run.violated('ATTRSEM', inst, fn.where(), '%s (%s)' % (v.what, v.loc))
        return
    except O.AnalysisBroken as ex:
        run.broken('ATTRSEM', inst, str(ex), fn.where())
        return
    run.held('ATTRSEM', inst, fn.where(), '%d opcode / operand combinations' % cases)


def run(run):
    vm = R.get_vm(run)
    fx = vm.fx
    precedence(run, fx)
    sortedlists(run, fx)
    attrsign(run, fx)
    setglyphfx(run, fx)
    freshmark(run, fx)
    analyse_exec(run, fx)
    try:
        from . import ordint as O_
        cases_, bad_ = firstpassing_exec(run, fx)
        fd_ = fx.one('graphite2::Pass::findNDoRule')
        if bad_:
            run.violated('FIRSTPASSING', 'the first candidate whose constraint holds is the one applied (findNDoRule interpreted)', fd_.where(), bad_)
        else:
            run.held('FIRSTPASSING', 'the first candidate whose constraint holds is the one applied (findNDoRule interpreted)', fd_.where(), '%d abstract executions' % cases_)
    except (AnalysisBroken, O_.AnalysisBroken) as ex:
        run.broken('FIRSTPASSING', 'the first candidate whose constraint holds is the one applied (findNDoRule interpreted)', str(ex), '')
    inst_ = 'accumulate_rules gives the precedence-sorted union (interpreted)'
    ar_ = fx.one('graphite2::FiniteStateMachine::Rules::accumulate_rules')
    try:
        from . import ordint as O_
        cases_, bad_ = merge_exec(run, fx, getattr(run, 'tier', 'quick') != 'quick')
        if bad_:
            run.violated('PRECEDENCE', inst_, ar_.where(), bad_)
        else:
            run.held('PRECEDENCE', inst_, ar_.where(), '%d abstract executions' % cases_)
    except (AnalysisBroken, O_.AnalysisBroken) as ex:
        run.broken('PRECEDENCE', inst_, str(ex), ar_.where())
    irf_ = 'runFSM accumulates the rules of every success state it passes and keeps them (interpreted)'
    try:
        cases_, bad_ = runfsm_exec(run, fx)
        if bad_:
            run.violated('PRECEDENCE', irf_, fx.one('graphite2::Pass::runFSM').where(), bad_)
        else:
            run.held('PRECEDENCE', irf_, fx.one('graphite2::Pass::runFSM').where(), '%d abstract executions' % cases_)
    except AnalysisBroken as ex:
        run.broken('PRECEDENCE', irf_, str(ex), '')
    firstpassing(run, fx)
    dirreaders(run, fx)
    posdirsource(run, fx)
    from .util import share as _share
    if not getattr(run, '_sharing', False):
        run._sharing = True
        try:
            _share(run, 'c04', ['DETACH', 'LISTOPS', 'ATTACH'], 'ATTRSEM')       # deletions and attachments do what the rule says (shared with C04)
            _share(run, 'c07', ['DRIVERS', 'SIG'], 'PURECONSTRAINT')    # both interpreters execute the specified opcode semantics (shared with C07)
            _share(run, 'c03', ['GIDCLAMP'], 'PRECEDENCE')              # class lookups of the substitutions (shared with C03)
            _share(run, 'c02', ['LOOPLIMIT'], 'PASSORDER')              # the per-pass rule loop and its high-water mark (shared with C02)
        finally:
            run._sharing = False
    from . import validators as validators_
    validators_.check(run, fx, 'PRECEDENCE')        # the FSM tables a pass matches with are the ones the loader accepted (shared with C01)
    if not run.cfg_tag:
        from . import c02 as c02s_
        c02s_.attrstride(run, 'ATTRSEM')          # a user attribute a rule set is what a later constraint reads, also while a log is open (shared with C02)
    try:
        from . import c02 as c02_
        cases_, bad_ = c02_.adjustexec(run, fx)        # "resumes at the position the rule returns": the cursor move and the high-water bookkeeping of Pass::adjustSlot (shared with C02)
        aj_ = fx.one('graphite2::Pass::adjustSlot')
        ia_ = 'the cursor moves by the offset the rule returns, highpassed() only beyond the high-water slot (adjustSlot interpreted)'
        if bad_:
            run.violated('ATTRSEM', ia_, aj_.where(), bad_)
        else:
            run.held('ATTRSEM', ia_, aj_.where(), '%d abstract executions' % cases_)
    except AnalysisBroken as ex:
        run.broken('ATTRSEM', 'adjustSlot interpreted', str(ex), '')
    inst_ = 'INSERT / DELETE change the stream as documented: the one slot added / removed, cursor and high-water mark moved with it (handlers interpreted)'
    try:
        from . import c03 as c03_
        cases_, bad_ = c03_.handlers_exec(run, vm, 3)          # "executes that rule's ... insertions, deletions ... and resumes at the position the rule returns" (shared with C03)
        if bad_:
            run.violated('ATTRSEM', inst_, vm.handlers['insert'].where(), bad_)
        else:
            run.held('ATTRSEM', inst_, vm.handlers['insert'].where(), '%d abstract executions' % cases_)
    except AnalysisBroken as ex:
        run.broken('ATTRSEM', inst_, str(ex), '')
    from . import posexec
    posexec.finalise_exec(run, fx, rules=('SHIFTFREE',), deep=getattr(run, 'tier', 'quick') != 'quick', ids={'SHIFTFREE': 'ATTRSEM'})   # what attr_set shift / advance mean for positions
    pureconstraint(run, vm)
    passorder(run, fx)
    passbitsfresh(run, fx)
    from . import ordint as O
    inst = 'every pass runs once, in font order (Face::runGraphite interpreted)'
    try:
        cases, bad, _ = passexec(run, fx, 4 if getattr(run, 'tier', 'quick') == 'quick' else 7)
        if bad:
            run.violated('PASSORDER', inst, fx.one('graphite2::Silf::runGraphite').where(), bad)
        else:
            run.held('PASSORDER', inst, fx.one('graphite2::Face::runGraphite').where(), '%d pass layouts interpreted' % cases)
    except O.AnalysisBroken as x:
        run.broken('PASSORDER', inst, str(x), '')
    from . import c19
    c19.dirflag(run, fx, 'PASSORDER')       # the reversed-stream flag that decides whether a pass re-reverses stays in step with the stream
    recycleclean(run, fx, vm)


def passexec(run, fx, maxp=4, collect=None):
    """PASSORDER by bounded abstract execution (rules/ordint.py): Face::runGraphite, with both of its Silf::runGraphite calls inlined from
    their own CFGs, is interpreted for every pass layout the loader admits with up to maxp passes (first positioning pass p <= n, bidi
    pass b = none or p <= b <= n); Pass::runGraphite is a native that records which pass ran.  Every pass 0..n-1 runs exactly once, in
    font order, and the bidi re-ordering step happens exactly once when the font has one, between pass b-1 and pass b."""
    from . import ordint as O
    fr = fx.one('graphite2::Face::runGraphite')
    PF, PP = 'graphite2::Silf::', 'graphite2::Pass::'
    cases = 0
    for n in range(0, maxp + 1):
        for p in range(0, n + 1):
            for b in [0xFF] + list(range(p, n + 1)):
                log = []
                passes = O.Vec([O.Rec({PP + 'id': k}) for k in range(n)])
                silf = O.Rec()
                silf[PF + 'm_passes'] = O.It(passes, 0)
                silf[PF + 'm_numPasses'] = n
                silf[PF + 'm_pPass'] = p
                silf[PF + 'm_sPass'] = 0
                silf[PF + 'm_jPass'] = p
                silf[PF + 'm_bPass'] = b
                silf[PF + 'm_dir'] = 0
                silf[PF + 'm_aMirror'] = 0
                silf[PF + 'm_flags'] = 0
                seg = O.Rec()
                face = O.Rec()
                nat = {
                    'graphite2::SlotMap::SlotMap': lambda I, fn, e, obj, a: O.Rec(),
                    'graphite2::FiniteStateMachine::FiniteStateMachine': lambda I, fn, e, obj, a: O.Rec(),
                    'graphite2::vm::Machine::Machine': lambda I, fn, e, obj, a: O.Rec(),
                    'graphite2::vm::Machine::status': lambda I, fn, e, obj, a: 0,
                    'graphite2::Segment::slotCount': lambda I, fn, e, obj, a: 3,
                    'graphite2::Segment::getFace': lambda I, fn, e, obj, a: O.Ptr(face),
                    'graphite2::Face::logger': lambda I, fn, e, obj, a: O.Ptr(None),
                    'graphite2::Segment::dir': lambda I, fn, e, obj, a: 0,
                    'graphite2::Segment::currdir': lambda I, fn, e, obj, a: 1,
                    'graphite2::Segment::passBits': lambda I, fn, e, obj, a: 0,
                    'graphite2::Segment::reverseSlots': lambda I, fn, e, obj, a: log.append('bidi'),
                    'graphite2::Segment::doMirror': lambda I, fn, e, obj, a: None,
                    'graphite2::Segment::associateChars': lambda I, fn, e, obj, a: log.append('assoc'),
                    'graphite2::Segment::initCollisions': lambda I, fn, e, obj, a: True,
                    'graphite2::Segment::charInfoCount': lambda I, fn, e, obj, a: 3,
                    'graphite2::Pass::reverseDir': lambda I, fn, e, obj, a: 0,
                    'graphite2::Pass::collisionLoops': lambda I, fn, e, obj, a: 0,
                    'graphite2::Pass::runGraphite': lambda I, fn, e, obj, a: (log.append(obj[PP + 'id']), True)[1],
                }
                it = O.Interp(fx, natives=nat)
                it.MAX_STEPS = 20000
                cases += 1
                desc = 'a font with %d pass(es), first positioning pass %d, bidi pass %s' % (n, p, 'none' if b == 0xFF else b)
                try:
                    it.call(fr, face, [O.Ptr(seg), O.Ptr(silf)])
                except O.Violation as v:
                    return cases, '%s: %s (%s)' % (desc, v.what, v.loc), None
                ran = [x for x in log if isinstance(x, int)]
                if ran != list(range(n)) and collect is not None:
                    collect.append((n, p, b, log))
                    continue
                if ran != list(range(n)):
                    return cases, '%s: Face::runGraphite runs the passes %s, expected each of 0..%d once in font order' % (desc, ran, n - 1), None
                ev = [x for x in log if x != 'assoc']
                want = list(range(n)) if b == 0xFF else list(range(b)) + ['bidi'] + list(range(b, n))
                if ev != want:
                    return cases, '%s: the bidi re-ordering step runs at %s, expected %s' % (desc, ev, want), None
                if log.count('assoc') != 1 or [x for x in log if x == 'assoc' or isinstance(x, int)] != list(range(p)) + ['assoc'] + list(range(p, n)):
                    return cases, '%s: characters are associated at %s, expected once between the substitution and positioning passes' % (desc, log), None
    return cases, None, None


def freshmark(run, fx):
    """Pass::runGraphite reverses the stream first when the pass runs the other way; every slot pointer it then works with -- the cursor
    and the first high-water mark -- is taken from the stream AFTER that reversal: no value derived from the stream before the
    reverseSlots() call (`s->next()` hoisted above it) reaches SlotMap::highwater() or the rule loop."""
    from .util import reaches_avoiding
    fn = fx.one('graphite2::Pass::runGraphite')
    revs = calls_in(fn, 'graphite2::Segment::reverseSlots')
    hws = [e for e in calls_in(fn, 'graphite2::SlotMap::highwater') if e.get('args')]
    inst = 'the first high-water mark is taken after the reversal'
    if not revs or not hws:
        run.broken('PASSORDER', inst, 'reverseSlots() / highwater(x) calls not found in Pass::runGraphite', fn.where())
        return
    bad = None
    for h in hws:
        a = fn.strip_all_casts(fn.N(h['args'][0]))
        if a['k'] != 'DeclRefExpr' or a.get('vid') is None:
            continue
        defs = [d for _, d in fn.elements() if (d['k'] == 'DeclStmt' and any(x.get('vid') == a['vid'] and x.get('init') is not None for x in d.get('decls', [])))
                or (d['k'] == 'BinaryOperator' and d['op'] == '=' and fn.strip_all_casts(fn.N(d['c'][0])).get('vid') == a['vid'])]
        for d in defs:
            for r in revs:
                others = [x for x in defs if x is not d]
                if reaches_avoiding(fn, d, r, avoid=others) and reaches_avoiding(fn, r, h, avoid=defs):
                    bad = (d, r, h, fn.render(a))
    if bad:
        d, r, h, nm = bad
        run.violated('PASSORDER', inst, fn.loc(d), '`%s` is computed at line %s, the stream is reversed at line %s, and the stale value is installed as the high-water mark at line %s: it is the '
                     'second-to-last slot of the reversed stream, so the rule loop counts every position against MaxRuleLoop and skips the middle of the text' % (nm, d['ln'], r['ln'], h['ln']))
    else:
        run.held('PASSORDER', inst, fn.loc(hws[0]), 'no definition of the mark reaches highwater() across reverseSlots()')


def setglyphfx(run, fx):
    """a substitution makes the slot take the metrics of the glyph it now shows: every path through Slot::setGlyph stores the glyph id,
    the real glyph id, the advance and drops the cached bidi class (no early exit ahead of them: a rule that substitutes a glyph by itself
    still resets an advance set by an earlier rule, as it does for every other member of the rule's class)"""
    from .util import field_writes
    fn = fx.one('graphite2::Slot::setGlyph')
    fw = field_writes(fx)
    for F in ('m_glyphid', 'm_realglyphid', 'm_advance', 'm_bidiCls'):
        q = 'graphite2::Slot::' + F
        blocks = set(f.block_of[e['i']] for f, e, kind in fw.get(q, []) if f is fn and kind in ('direct', 'init'))
        for _, e in fn.elements():      # class-type members are assigned through operator=
            if e['k'] == 'CXXOperatorCallExpr' and (e.get('fq') or '').endswith('::operator=') and e.get('args'):
                t = fn.strip_all_casts(fn.N(e['args'][0]))
                if t['k'] == 'MemberExpr' and t.get('d') == q:
                    blocks.add(fn.block_of[e['i']])
        inst = 'Slot::setGlyph stores %s on every path' % F
        if not blocks:
            run.violated('PRECEDENCE', inst, fn.where(), 'Slot::setGlyph no longer stores %s' % F)
            continue
        seen, st, path = set(), [(fn.entry, [fn.entry])], None
        while st:
            b, p = st.pop()
            if b in seen or b in blocks:
                continue
            seen.add(b)
            if b == fn.exit:
                path = p
                break
            st.extend((s, p + [s]) for s in fn.succs(b) if s is not None)
        if path:
            run.violated('PRECEDENCE', inst, fn.where(), 'a path through Slot::setGlyph (blocks %s) returns without storing %s: a substitution (put_glyph / put_subs, Segment::appendSlot) leaves the slot '
                         'with the %s of the glyph it showed before' % (path, F, F[2:]))
        else:
            run.held('PRECEDENCE', inst, fn.where(), 'stored in blocks %s, which cut every entry-exit path' % sorted(blocks))


def merge_exec(run, fx, full=False):
    """PRECEDENCE by bounded execution (rules/ordint.py): FiniteStateMachine::Rules::accumulate_rules (with RuleEntry::operator<,
    begin / end / State::empty inlined from their own CFGs) merges the sorted rule list of a state into the sorted result set.  It is
    interpreted for every sort-key assignment of 4 rules x every precedence-sorted result set x every non-empty precedence-sorted state
    list x both halves of the double buffer: the new result set is the precedence-sorted union without duplicates, it lies in the other
    half, and nothing outside the buffer is touched."""
    import itertools
    from . import ordint as O
    fn = fx.one('graphite2::FiniteStateMachine::Rules::accumulate_rules')
    PR, PE, PS, PU = 'graphite2::FiniteStateMachine::Rules::', 'graphite2::RuleEntry::', 'graphite2::State::', 'graphite2::Rule::'
    maxr = None
    for e_ in fx.raw['enums'].values():
        for c_ in e_.get('consts', []):
            if c_.get('q', '').endswith('FiniteStateMachine::MAX_RULES'):
                maxr = c_.get('v')
    if not maxr:
        raise AnalysisBroken('FiniteStateMachine::MAX_RULES not found')
    cases = 0
    for sorts in (itertools.product((1, 2), repeat=4) if full else [(1, 1, 1, 1), (1, 2, 1, 2), (2, 1, 2, 1), (1, 1, 2, 2), (2, 2, 1, 1), (1, 2, 2, 1)]):
        rules = O.Vec([O.Rec({PU + 'sort': sorts[k], '#': k}) for k in range(4)])
        order = sorted(range(4), key=lambda k: (-sorts[k], k))           # precedence: longer sort key first, then earlier rule
        for lmask in range(16):
            L = [k for k in order if lmask >> k & 1]
            for rmask in range(1, 16):
                R = [k for k in order if rmask >> k & 1]
                for half in (0, 1):
                    buf = O.Vec([O.Rec({PE + 'rule': O.Ptr(None)}) for _ in range(2 * maxr)])
                    for j, k in enumerate(L):
                        buf.items[half * maxr + j] = O.Rec({PE + 'rule': O.It(rules, k)})
                    rs = O.Rec({PR + 'm_rules': O.It(buf, 0), PR + 'm_begin': O.It(buf, half * maxr), PR + 'm_end': O.It(buf, half * maxr + len(L))})
                    sv = O.Vec([O.Rec({PE + 'rule': O.It(rules, k)}) for k in R])
                    st = O.Rec({PS + 'rules': O.It(sv, 0), PS + 'rules_end': O.It(sv, len(R))})
                    it = O.Interp(fx)
                    it.MAX_STEPS = 4000
                    cases += 1
                    desc = 'sort keys %s, result set %s, state list %s, buffer half %d' % (list(sorts), L, R, half)
                    try:
                        it.call(fn, rs, [st])
                    except O.Violation as v:
                        return cases, '%s: %s (%s)' % (desc, v.what, v.loc)
                    b, e = rs[PR + 'm_begin'], rs[PR + 'm_end']
                    if not (isinstance(b, O.It) and isinstance(e, O.It) and b.vec is buf and e.vec is buf and b.idx == (1 - half) * maxr and b.idx <= e.idx <= b.idx + maxr):
                        return cases, '%s: the new result set is not in the other half of the buffer' % desc
                    got = []
                    for x in buf.items[b.idx:e.idx]:
                        r_ = x.get(PE + 'rule')
                        got.append(r_.idx if isinstance(r_, O.It) else None)
                    want = [k for k in order if (lmask | rmask) >> k & 1]
                    if got != want:
                        return cases, '%s: the merged candidate list is %s, the precedence-sorted union is %s (findNDoRule applies the first candidate that passes: a rule out of place or listed twice changes which rule fires)' % (desc, got, want)
    return cases, None


def firstpassing_exec(run, fx):
    """FIRSTPASSING by bounded execution: Pass::findNDoRule is interpreted with the FSM walk, the constraint test and the action as
    natives (the candidate list and the truth value of every candidate's constraint are chosen by the harness): for every candidate
    list of 0..4 rules and every assignment of constraint results, exactly one action runs -- that of the FIRST candidate whose
    constraint holds -- or, if none holds (or the FSM matched nothing), no action runs and the cursor moves on by exactly one slot."""
    import itertools
    from . import ordint as O
    fn = fx.one('graphite2::Pass::findNDoRule')
    PF, PR, PE, PS = 'graphite2::FiniteStateMachine::', 'graphite2::FiniteStateMachine::Rules::', 'graphite2::RuleEntry::', 'graphite2::Slot::'
    cases = 0
    for n in range(0, 5):
        for truth in itertools.product((False, True), repeat=n):
            for matched in ((True, False) if n else (True,)):
                rules = O.Vec([O.Rec({'#': k, 'graphite2::Rule::action': O.Ptr(O.Rec({'#act': k})), 'graphite2::Rule::constraint': O.Ptr(O.Rec())}) for k in range(n)])
                ents = O.Vec([O.Rec({PE + 'rule': O.It(rules, k)}) for k in range(n)])
                rs = O.Rec({PR + 'm_begin': O.It(ents, 0), PR + 'm_end': O.It(ents, n)})
                fsm = O.Rec({PF + 'rules': rs, PF + 'slots': O.Rec(), PF + 'dbgout': O.Ptr(None)})
                s1 = O.Rec({PS + 'm_next': O.Ptr(None), '#': 1})
                s0 = O.Rec({PS + 'm_next': O.Ptr(s1), '#': 0})
                log = []

                def tc(I, f, e, obj, a, truth=truth, log=log):
                    r_ = I.rv(a[0])
                    r_ = r_ if isinstance(r_, O.Rec) else (I.deref_it(r_, f, e).load() if isinstance(r_, O.It) else r_.rec)
                    log.append(('test', r_['#']))
                    return truth[r_['#']]

                def act(I, f, e, obj, a, log=log):
                    c_ = I.rv(a[0])
                    log.append(('act', c_.rec['#act']))
                    return 0
                nat = {'graphite2::Pass::runFSM': lambda I, f, e, obj, a, matched=matched: matched,
                       'graphite2::Pass::testConstraint': tc, 'graphite2::Pass::doAction': act,
                       'graphite2::Pass::adjustSlot': lambda I, f, e, obj, a: None,
                       'graphite2::vm::Machine::status': lambda I, f, e, obj, a: 0,
                       'graphite2::vm::Machine::Code::deletes': lambda I, f, e, obj, a: False,
                       'graphite2::SlotMap::collectGarbage': lambda I, f, e, obj, a: None}
                it = O.Interp(fx, natives=nat)
                it.MAX_STEPS = 3000
                box = [O.Ptr(s0)]
                cases += 1
                desc = '%d candidate(s), constraints %s%s' % (n, list(truth), '' if matched else ', FSM matched nothing')
                try:
                    it.call(fn, O.Rec(), [O.LV(box, 0), O.Rec(), fsm])
                except O.Violation as v:
                    return cases, '%s: %s (%s)' % (desc, v.what, v.loc)
                acts = [x[1] for x in log if x[0] == 'act']
                first = next((k for k in range(n) if truth[k]), None) if matched else None
                if first is None:
                    if acts:
                        return cases, '%s: the action of rule %s runs although no candidate\'s constraint holds' % (desc, acts)
                    if box[0].rec is not s1:
                        return cases, '%s: no rule applies, but the cursor does not move on by one slot' % desc
                elif acts != [first]:
                    return cases, '%s: the action(s) run are %s, expected exactly that of candidate %d, the first whose constraint holds' % (desc, acts, first)
    return cases, None
