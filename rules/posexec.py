"""Positioning by symbolic execution: Slot::finalise -- the function that turns the slot attributes (advance, shift, justification
space, attachment offsets, collision offset) into positions and the cluster advance -- is interpreted from its exported CFG
(rules/ordint.py) with every float input a SYMBOL and every float quantity an exact polynomial over those symbols (ordint.Poly).  A
comparison of two polynomials is explored both ways, so one run stands for all inputs that take that path; what is compared at the
end are polynomials, i.e. the function computed on that path, not sample values.

Relations decided (no reference implementation is written down here -- each relation compares the code with itself):

  UNITS      (C15)  the run with a font (scale s > 0, unhinted) computes s times what the run without a font computes, for every slot
                    position, the returned advance and the cluster minimum, when base and clusterMin are scaled alike; with a hinted
                    font the advance differs by exactly the hinting difference  font->advance(g) - s*face_advance(g)  of each slot.
  SHIFTFREE  (C06)  a slot's own shift (and its collision offset) moves the slot -- d position.x / d shift.x = dir * s, d position.y /
                    d shift.y = s -- and does not change the advance a childless slot hands back to its cluster.
  JUSTADV    (C19)  the justification space of a slot widens its advance by s per unit: d advance / d just = s for a base slot.
"""
import itertools
from . import ordint as O
from .facts import AnalysisBroken

PS, PP = 'graphite2::Slot::', 'graphite2::Position::'


def _pos(x, y):
    return O.Rec({PP + 'x': x, PP + 'y': y})


def _mkslot(fx, k):
    srec = fx.record('graphite2::Slot')
    s = O.Rec()
    for f in srec['fields']:
        t = f.get('t') or ''
        s[PS + f['n']] = O.Ptr(None) if f.get('ptr') else (_pos(0, 0) if 'Position' in t else 0)
    sym = O.Poly.sym
    s[PS + 'm_shift'] = _pos(sym('shx%d' % k), sym('shy%d' % k))
    s[PS + 'm_advance'] = _pos(sym('advx%d' % k), sym('advy%d' % k))
    s[PS + 'm_attach'] = _pos(sym('atx%d' % k), sym('aty%d' % k))
    s[PS + 'm_with'] = _pos(sym('wx%d' % k), sym('wy%d' % k))
    s[PS + 'm_just'] = sym('just%d' % k)
    s[PS + 'm_glyphid'] = k + 1
    s['#'] = k
    return s


class _Preset(O.Chooser):
    """a chooser for the second run of a pair: the polynomial signs are preset from the first run; any further choice is explored"""
    pass


def _forest(fx, shape):
    """shape: tuple of parent indices (None for the base), slot 0 is the base; children chained in index order"""
    n = len(shape)
    slots = [_mkslot(fx, k) for k in range(n)]
    for k in range(n):
        if shape[k] is not None:
            slots[k][PS + 'm_parent'] = O.Ptr(slots[shape[k]])
    for p in range(n):
        kids = [k for k in range(n) if shape[k] == p]
        if kids:
            slots[p][PS + 'm_child'] = O.Ptr(slots[kids[0]])
            for a, b in zip(kids, kids[1:]):
                slots[a][PS + 'm_sibling'] = O.Ptr(slots[b])
    return slots


SHAPES = [(None,), (None, 0), (None, 0, 0), (None, 0, 1)]


def _natives(mode, coll, glyphs):
    """mode: 'nofont' | 'plain' | 'hinted'"""
    sym = O.Poly.sym
    S = sym('scale')

    def glyph_of(it, slot):
        return slot[PS + 'm_glyphid'] if isinstance(slot, O.Rec) else 0

    def collinfo(it, f, e, obj, args):
        s = it.rv(args[0])
        s = s.rec if isinstance(s, O.Ptr) else s
        if not coll:
            return O.Ptr(None)
        k = s['#']
        return O.Ptr(O.Rec({'#coll': k}))
    nat = {
        'graphite2::Segment::collisionInfo': collinfo,
        'graphite2::SlotCollision::offset': lambda it, f, e, obj, args: _pos(sym('cox%d' % obj['#coll']), sym('coy%d' % obj['#coll'])),
        'graphite2::SlotCollision::flags': lambda it, f, e, obj, args: coll[1],
        'graphite2::Segment::getFace': lambda it, f, e, obj, args: O.Ptr(O.Rec({'#face': 1})),
        'graphite2::Face::glyphs': lambda it, f, e, obj, args: O.Rec({'#glyphs': 1}),
        'graphite2::GlyphCache::glyphSafe': lambda it, f, e, obj, args: O.Ptr(O.Rec({'#gf': it.rv(args[0])})) if glyphs else O.Ptr(None),
        'graphite2::GlyphFace::theAdvance': lambda it, f, e, obj, args: _pos(sym('fadv%d' % (obj['#gf'] - 1)), 0),
        'graphite2::GlyphFace::theBBox': lambda it, f, e, obj, args: O.Rec({'#rect': 1}),
        'graphite2::Rect::operator*': lambda it, f, e, obj, args: O.Rec({'#rect': 1}),
        'graphite2::Rect::operator+': lambda it, f, e, obj, args: O.Rec({'#rect': 1}),
        'graphite2::Rect::widen': lambda it, f, e, obj, args: O.Rec({'#rect': 1}),
        'graphite2::Rect::operator=': lambda it, f, e, obj, args: obj,
        'graphite2::Rect::Rect': lambda it, f, e, obj, args: O.Rec({'#rect': 1}),
        'graphite2::Font::scale': lambda it, f, e, obj, args: S,
        'graphite2::Font::isHinted': lambda it, f, e, obj, args: mode == 'hinted',
        # the hinted advance of glyph g, written as  s * (face advance + hint difference)
        'graphite2::Font::advance': lambda it, f, e, obj, args: S * (sym('fadv%d' % (it.rv(args[0]) - 1)) + sym('hint%d' % (it.rv(args[0]) - 1))),
    }
    return nat


def _run_paths(fx, shape, mode, rtl, coll, glyphs, preset=None, limit=400, start=0):
    """every path of finalise(base slot) for one configuration: [(signs, positions, res, clusterMin)]"""
    fn = fx.one('graphite2::Slot::finalise')
    sym = O.Poly.sym
    ch = O.Chooser()
    out = []
    while True:
        ch.start()
        slots = _forest(fx, shape)
        it = O.Interp(fx, chooser=ch, natives=_natives(mode, coll, glyphs))
        it.MAX_STEPS = 40000
        it.poly_positive = ('scale',)
        it.poly_sign = dict(preset or {})
        k = 1 if mode == 'nofont' else sym('scale')
        base = _pos(sym('bx') * k, sym('by') * k)
        cmin = [sym('cmin') * k]
        font = O.Ptr(None) if mode == 'nofont' else O.Ptr(O.Rec({'#font': 1}))
        res = it.call(fn, slots[start], [O.Ptr(O.Rec({'#seg': 1})), font, O.LV([base], 0), O.LV([O.Rec({'#rect': 1})], 0), 0, O.LV(cmin, 0), rtl, bool(coll), 0])
        out.append((dict(it.poly_sign), [(s[PS + 'm_position'][PP + 'x'], s[PS + 'm_position'][PP + 'y']) for s in slots], (res[PP + 'x'], res[PP + 'y']), cmin[0]))
        if len(out) > limit:
            raise AnalysisBroken('Slot::finalise: more than %d paths for one configuration' % limit)
        if not ch.advance():
            break
    return out


def _coef(p, atom):
    """d p / d atom as a polynomial (None when p is not linear in atom)"""
    p = O.Poly.of(p)
    t = {}
    for k, v in p.t.items():
        c = k.count(atom)
        if c > 1:
            return None
        if c == 1:
            kk = list(k)
            kk.remove(atom)
            t[tuple(kk)] = t.get(tuple(kk), 0) + v
    return O.Poly(t)


def _subst_scale1(p):
    """p with scale := 1"""
    p = O.Poly.of(p)
    t = {}
    for k, v in p.t.items():
        kk = tuple(a for a in k if a != 'scale')
        t[kk] = t.get(kk, 0) + v
    return O.Poly(t)


def finalise_exec(run, fx, rules=('UNITS', 'SHIFTFREE', 'JUSTADV'), deep=False, ids=None):
    ids = ids or {}
    fn = fx.one('graphite2::Slot::finalise')
    sym = O.Poly.sym
    S = sym('scale')
    stats = {'paths': 0, 'pairs': 0, 'configs': 0}
    prob = {r: None for r in rules}
    try:
        for shape in SHAPES:
            n = len(shape)
            leaves = [k for k in range(n) if k not in shape]
            for rtl in (False, True):
                dirn = -1 if rtl else 1
                for coll in (None, (True, 0)):
                    for glyphs in (True, False):
                        if n >= 3 and not deep and (coll or not glyphs or (rtl and shape == (None, 0, 0))):
                            continue                # quick tier: three-slot trees once per direction, without collision offsets
                        stats['configs'] += 1
                        desc = '%d slot(s) %s, %s, %s%s' % (n, 'attached as %s' % (list(shape[1:]),) if n > 1 else 'alone', 'rtl' if rtl else 'ltr',
                                                            'final positioning with collision offsets' if coll else 'no collision offsets', '' if glyphs else ', glyph without metrics')
                        r0 = _run_paths(fx, shape, 'nofont', rtl, coll, glyphs)
                        stats['paths'] += len(r0)
                        if n == 2 and 'SHIFTFREE' in prob and not prob['SHIFTFREE']:
                            # the attached slot finalised on its own, as the recursion calls it (base = the parent's position): what it hands back
                            # (its unshifted position plus its advance, or nothing) does not depend on its own shift or collision offset
                            for mode in ('nofont', 'plain', 'hinted'):
                                rl = _run_paths(fx, shape, mode, rtl, coll, glyphs, start=1)
                                stats['paths'] += len(rl)
                                sc = O.Poly.of(1) if mode == 'nofont' else S
                                for _, posl, resl, _c in rl:
                                    for atom, wx, wy in (('shx1', sc * dirn, O.Poly.of(0)), ('shy1', O.Poly.of(0), sc)):
                                        if _coef(posl[1][0], atom) != wx or _coef(posl[1][1], atom) != wy:
                                            prob['SHIFTFREE'] = '%s, %s: an attached slot moves by (%s, %s) per unit of its own %s, expected (%s, %s)' % (desc, mode, _coef(posl[1][0], atom), _coef(posl[1][1], atom), atom[:3].replace('sh', 'shift.'), wx, wy)
                                    for atom, what in (('shx1', 'shift.x'), ('shy1', 'shift.y'), ('cox1', 'collision offset'), ('coy1', 'collision offset')):
                                        if _coef(resl[0], atom) != 0 or _coef(resl[1], atom) != 0:
                                            prob['SHIFTFREE'] = ('%s, %s: the advance an attached slot hands back to its cluster changes by (%s, %s) per unit of its own %s: a shift moves a glyph, it '
                                                                 'does not change what the glyph adds to the advance of its cluster' % (desc, mode, _coef(resl[0], atom), _coef(resl[1], atom), what))
                        for signs, pos0, res0, cmin0 in r0:
                            # -- per path of the design-unit run: the derivative relations
                            for k in (range(n) if n == 1 else ()):         # in a tree the cluster is re-based on the glyph that sticks out furthest left, shift and all
                                for rule, atom, want_px, want_py, what in (('SHIFTFREE', 'shx%d' % k, O.Poly.of(dirn), O.Poly.of(0), 'shift.x'), ('SHIFTFREE', 'shy%d' % k, O.Poly.of(0), O.Poly.of(1), 'shift.y')):
                                    if rule not in prob or prob[rule]:
                                        continue
                                    dx, dy = _coef(pos0[k][0], atom), _coef(pos0[k][1], atom)
                                    if dx != want_px or dy != want_py:
                                        prob[rule] = '%s: slot #%d moves by (%s, %s) per unit of its own %s, expected (%s, %s)' % (desc, k, dx, dy, what, want_px, want_py)
                                    if _coef(res0[0], atom) != 0 or _coef(res0[1], atom) != 0:
                                        prob[rule] = ('%s: the advance handed back changes by (%s, %s) per unit of the %s of slot #%d: a shift moves a glyph, it does not '
                                                      'change what the glyph adds to the advance' % (desc, _coef(res0[0], atom), _coef(res0[1], atom), what, k))
                            if 'JUSTADV' in prob and not prob['JUSTADV'] and n == 1:
                                d = _coef(res0[0], 'just0')
                                if d != 1:
                                    prob['JUSTADV'] = '%s: the advance of a base slot grows by %s per unit of its justification space, expected 1' % (desc, d)
                            # -- the same path with a font: everything is s times the design-unit result
                            if 'UNITS' in prob and not prob['UNITS']:
                                for mode in ('plain', 'hinted'):
                                    r1 = _run_paths(fx, shape, mode, rtl, coll, glyphs, preset=signs)
                                    stats['pairs'] += len(r1)
                                    for signs1, pos1, res1, cmin1 in r1:
                                        if set(signs1) - set(signs):
                                            continue          # the font run asked a question the design-unit run did not: paths do not correspond, nothing to compare
                                        want_res = O.Poly.of(res0[0]) * S
                                        if mode == 'hinted' and glyphs:
                                            # advx_k stands for the slot's advance; hinting replaces s*fadv_k by s*(fadv_k + hint_k) inside it
                                            want_res = None
                                        for k in range(n):
                                            if pos1[k][0] != O.Poly.of(pos0[k][0]) * S or pos1[k][1] != O.Poly.of(pos0[k][1]) * S:
                                                if mode == 'hinted' and glyphs and any('hint' in a for m_ in O.Poly.of(pos1[k][0]).t for a in m_):
                                                    continue
                                                prob['UNITS'] = ('%s, %s font: slot #%d is placed at (%s, %s); the design-unit run places it at (%s, %s), and a font only scales' %
                                                                 (desc, mode, k, pos1[k][0], pos1[k][1], pos0[k][0], pos0[k][1]))
                                        if want_res is not None and (res1[0] != want_res or res1[1] != O.Poly.of(res0[1]) * S):
                                            prob['UNITS'] = ('%s, %s font: the advance is (%s, %s); the design-unit run gives (%s, %s), and a font only scales' % (desc, mode, res1[0], res1[1], res0[0], res0[1]))
                                        if want_res is None and n == 1:
                                            w = (O.Poly.of(res0[0]) + sym('hint0')) * S
                                            if res1[0] != w:
                                                prob['UNITS'] = ('%s, hinted font: the advance is %s, expected the scaled design-unit advance plus the hinting difference of the glyph, %s' % (desc, res1[0], w))
    except O.Violation as v:
        for r in rules:
            run.violated(ids.get(r, r), 'Slot::finalise, symbolic', fn.where(), '%s (%s)' % (v.what, v.loc))
        return
    except AnalysisBroken as ex:
        for r in rules:
            run.broken(ids.get(r, r), 'Slot::finalise, symbolic', str(ex), fn.where())
        return
    INST = {'UNITS': 'with a font, Slot::finalise computes scale times its design-unit result',
            'SHIFTFREE': 'a shift moves the glyph and leaves the advance it adds alone',
            'JUSTADV': 'justification space widens the advance one for one'}
    for r in rules:
        if prob[r]:
            run.violated(ids.get(r, r), INST[r], fn.where(), prob[r])
        elif stats['paths'] < 30:
            run.broken(ids.get(r, r), INST[r], 'only %d paths of Slot::finalise were interpreted' % stats['paths'], fn.where())
        else:
            run.held(ids.get(r, r), INST[r], fn.where(), '%d configurations, %d design-unit paths, %d paired font paths; every float a polynomial over the symbolic slot attributes' % (stats['configs'], stats['paths'], stats['pairs']))
