"""TAGNORM (C18.3 / C20.3): a tag supplied through the API is normalised (space padding ->
zero padding) before it can be compared with a value read from the font.

Instances:
  * zeropad() and the in-line chain of makeAndInitialize() implement the same four padding
    cases, most padded first (SIB over the extracted (mask, pad, result-mask) chains);
  * gr_face_featureval_for_lang / gr_face_find_fref redefine their tag parameter through
    zeropad() before any other use; gr_make_seg forwards `script` only to makeAndInitialize,
    whose uses of `script` all lie after its chain;
  * Face::chooseSilf's result does not depend on `script` (so gr_face_info and
    gr_face_is_char_supported, which do not normalise, are not instances).
"""
from .facts import AnalysisBroken


def calls_in_(fn):
    return [e for _, e in fn.elements() if e['k'] in ('CallExpr', 'CXXMemberCallExpr')]


EXPECT = [(0xFFFFFFFF, 0x20202020, 0x00000000),
          (0x00FFFFFF, 0x00202020, 0xFF000000),
          (0x0000FFFF, 0x00002020, 0xFFFF0000),
          (0x000000FF, 0x00000020, 0xFFFFFF00)]


def _const(fn, n):
    n = fn.strip_all_casts(n)
    return n.get('v')


def _is_var(fn, n, vid):
    n = fn.strip_all_casts(n)
    return n['k'] == 'DeclRefExpr' and n.get('vid') == vid


def _test(fn, cond, vid):
    """cond is `x == C` or `(x & M) == C` -> (M, C)"""
    n = fn.strip_all_casts(cond)
    if n['k'] != 'BinaryOperator' or n['op'] != '==':
        return None
    for a, b in ((n['c'][0], n['c'][1]), (n['c'][1], n['c'][0])):
        c = _const(fn, b)
        if c is None:
            continue
        x = fn.strip_all_casts(a)
        if _is_var(fn, x, vid):
            return (0xFFFFFFFF, c & 0xFFFFFFFF)
        if x['k'] == 'BinaryOperator' and x['op'] == '&':
            for p, q in ((x['c'][0], x['c'][1]), (x['c'][1], x['c'][0])):
                m = _const(fn, q)
                if m is not None and _is_var(fn, p, vid):
                    return (m & 0xFFFFFFFF, c & 0xFFFFFFFF)
    return None


def _result_mask(fn, e, vid):
    """e is `0` or `x & R` -> R"""
    n = fn.strip_all_casts(e)
    if n.get('v') == 0:
        return 0
    if n['k'] == 'BinaryOperator' and n['op'] == '&':
        for p, q in ((n['c'][0], n['c'][1]), (n['c'][1], n['c'][0])):
            m = _const(fn, q)
            if m is not None and _is_var(fn, p, vid):
                return m & 0xFFFFFFFF
    return None


def extract_chain(fn, vid, mode):
    """Follow the false edges from the entry; mode 'return' (zeropad) or 'assign'
    (makeAndInitialize).  Returns (chain, chain_blocks, tail_block)."""
    chain, blocks = [], set()
    b = fn.succs(fn.entry)[0]
    while True:
        cond = fn.term_cond(b)
        t = fn.blocks[b].get('term') or {}
        if cond is None or t.get('k') != 'IfStmt':
            break
        mc = _test(fn, cond, vid)
        if mc is None:
            break
        tb, fb = fn.blocks[b]['succ'][0], fn.blocks[b]['succ'][1]
        if tb is None or fb is None:
            raise AnalysisBroken('%s: pruned edge in the padding chain' % fn.q)
        res = None
        for e in fn.blocks[tb]['el']:
            if mode == 'return' and e['k'] == 'ReturnStmt':
                res = _result_mask(fn, e['c'][0], vid)
            if mode == 'assign' and e['k'] == 'BinaryOperator' and e['op'] == '=' and _is_var(fn, e['c'][0], vid):
                res = _result_mask(fn, e['c'][1], vid)
            if mode == 'assign' and e['k'] == 'CompoundAssignOperator' and e['op'] == '&=' and _is_var(fn, e['c'][0], vid):
                m = _const(fn, e['c'][1])
                res = m & 0xFFFFFFFF if m is not None else None
        if res is None:
            raise AnalysisBroken('%s: padding case at %s has an unknown result shape' % (fn.q, fn.loc(cond)))
        chain.append((mc[0], mc[1], res))
        blocks.add(b)
        blocks.add(tb)
        b = fb
    return chain, blocks, b


M32 = 0xFFFFFFFF


def abstract_chain(fn, vid):
    """The padding cases of a normaliser with arbitrary control flow over constants (if chain, loop over byte positions, ...): a
    bounded abstract execution over {constant, (x >> s) & m}.  Branches on constants are followed; a branch on `((x >> s) & m) == C`
    forks.  Every complete path yields (bytes of x it found equal to C, result): the result must be `x & R` (or 0, or x itself).
    Returns ([(mask, pad, keep)] most padded first, identity_on_the_path_without_matches) or (None, False) when the function has
    another shape."""
    paths = []

    def xf(v):
        return v if v and v[0] == 'xf' else None

    def arith(op, a, b_):
        if not a or not b_:
            return ('unk',)
        if a[0] == 'k' and b_[0] == 'k':
            x, y = a[1], b_[1]
            r = {'+': x + y, '-': x - y, '*': x * y, '<<': (x << y) if 0 <= y < 64 else 0, '>>': (x >> y) if 0 <= y < 64 else 0, '&': x & y, '|': x | y,
                 '^': x ^ y, '<': int(x < y), '>': int(x > y), '<=': int(x <= y), '>=': int(x >= y), '==': int(x == y), '!=': int(x != y),
                 '&&': int(bool(x) and bool(y)), '||': int(bool(x) or bool(y))}.get(op)
            return ('k', r & M32 if r is not None and r >= 0 else r) if r is not None else ('unk',)
        if op == '&':
            for p_, q_ in ((a, b_), (b_, a)):
                if q_[0] == 'k' and xf(p_):
                    return ('xf', p_[1], p_[2] & q_[1] & M32)
        if op == '>>' and xf(a) and b_[0] == 'k' and 0 <= b_[1] < 32:
            return ('xf', a[1] + b_[1], (a[2] >> b_[1]) & M32)
        if op in ('==', '!='):
            for p_, q_ in ((a, b_), (b_, a)):
                if q_[0] == 'k' and xf(p_):
                    return ('test', (p_[2] << p_[1]) & M32, (q_[1] << p_[1]) & M32, op == '==')
        return ('unk',)

    def ev_block(b, env):
        val, ret = {}, [None]
        for e in fn.blocks[b]['el']:
            k, i = e['k'], e['i']
            c = e.get('c') or []
            g = lambda j: val.get(c[j]) if len(c) > j and isinstance(c[j], int) else None
            if e.get('v') is not None and k != 'DeclRefExpr':
                val[i] = ('k', e['v'] & M32 if e['v'] >= 0 else e['v'])
            elif k == 'DeclRefExpr':
                val[i] = ('k', e['v']) if e.get('v') is not None else ('lv', e.get('vid'))
            elif k.endswith('CastExpr') or k in ('ParenExpr', 'ExprWithCleanups', 'ConstantExpr'):
                v = g(0)
                if v and v[0] == 'lv' and e.get('ck') == 'LValueToRValue':
                    v = ('xf', 0, M32) if v[1] == vid else env.get(v[1], ('unk',))
                val[i] = v
            elif k == 'UnaryOperator':
                v = g(0)
                if e['op'] == '~' and v and v[0] == 'k':
                    val[i] = ('k', ~v[1] & M32)
                elif e['op'] in ('pre++', 'post++', 'pre--', 'post--') and v and v[0] == 'lv' and env.get(v[1], ('unk',))[0] == 'k':
                    d = 1 if '++' in e['op'] else -1
                    old = env[v[1]][1]
                    env[v[1]] = ('k', old + d)
                    val[i] = ('k', old if e['op'].startswith('post') else old + d)
                elif e['op'] == '!' and v and v[0] == 'k':
                    val[i] = ('k', int(not v[1]))
                elif e['op'] == '!' and v and v[0] == 'test':
                    val[i] = ('test', v[1], v[2], not v[3])
                else:
                    val[i] = ('unk',)
            elif k in ('BinaryOperator', 'CompoundAssignOperator'):
                a, b_ = g(0), g(1)
                op = e['op']
                if op == '=' and a and a[0] == 'lv':
                    env[a[1]] = b_ if b_ else ('unk',)
                    val[i] = a
                    continue
                if k == 'CompoundAssignOperator':
                    cur = (('xf', 0, M32) if a[1] == vid else env.get(a[1], ('unk',))) if a and a[0] == 'lv' else ('unk',)
                    r = arith(op[:-1], cur, b_)
                    if a and a[0] == 'lv':
                        env[a[1]] = r
                    val[i] = a
                    continue
                val[i] = arith(op, a, b_)
            elif k == 'DeclStmt':
                for d in e.get('decls', []):
                    if d.get('vid') is not None:
                        iv = d.get('init')
                        v = val.get(iv) if isinstance(iv, int) else None
                        if v and v[0] == 'lv':
                            v = ('xf', 0, M32) if v[1] == vid else env.get(v[1], ('unk',))
                        env[d['vid']] = v if v else ('unk',)
            elif k == 'ReturnStmt':
                v = g(0)
                if v and v[0] == 'lv':
                    v = ('xf', 0, M32) if v[1] == vid else env.get(v[1], ('unk',))
                ret[0] = v if v else ('unk',)
            else:
                val[i] = ('unk',)
        return val, ret[0]

    def go(b, env, passed, steps):
        if steps > 120 or len(paths) > 64:
            raise AnalysisBroken('abstract normaliser: too many steps')
        env = dict(env)
        val, ret = ev_block(b, env)
        if ret is not None:
            paths.append((passed, ret))
            return
        succ = fn.blocks[b]['succ']
        if not succ or b == fn.exit:
            paths.append((passed, None))
            return
        if len(succ) == 1:
            if succ[0] is not None:
                go(succ[0], env, passed, steps + 1)
            return
        cond = (fn.blocks[b].get('term') or {}).get('cond')
        cv = val.get(cond) if cond is not None else None
        if cv and cv[0] == 'lv':
            cv = env.get(cv[1], ('unk',))
        if cv and cv[0] == 'k' and len(succ) == 2:
            nxt = succ[0] if cv[1] else succ[1]
            if nxt is not None:
                go(nxt, env, passed, steps + 1)
            return
        if cv and cv[0] == 'test' and len(succ) == 2 and None not in succ:
            tb, fb_ = (succ[0], succ[1]) if cv[3] else (succ[1], succ[0])
            go(tb, env, passed + [(cv[1], cv[2])], steps + 1)
            go(fb_, env, passed, steps + 1)
            return
        raise AnalysisBroken('abstract normaliser: branch on a value of unknown shape')

    try:
        go(fn.entry, {}, [], 0)
    except (AnalysisBroken, RecursionError):
        return None, False
    chain, ident = {}, False
    for passed, ret in paths:
        if ret is None:
            return None, False
        if not passed:
            ident = ret == ('xf', 0, M32)
            continue
        m = c = 0
        for mm, cc in passed:
            if m & mm:
                return None, False
            m |= mm
            c |= cc
        if ret == ('k', 0):
            r = 0
        elif ret[0] == 'xf' and ret[1] == 0:
            r = ret[2]
        else:
            return None, False
        if chain.get(m, (c, r)) != (c, r):
            return None, False
        chain[m] = (c, r)
    out = sorted(((m, c, r) for m, (c, r) in chain.items()), key=lambda t: -bin(t[0]).count('1'))
    return (out if out else None), ident


def normalisers(fx):
    """every function of one 32-bit parameter whose body is a padding chain in return form (zeropad and any helper like it)"""
    out = []
    for fn in fx.all_fns():
        ps = fn.f.get('params') or []
        if len(ps) != 1 or fn.f.get('implicit') or not fn.file.startswith('src/'):
            continue
        try:
            chain, _, tail = extract_chain(fn, ps[0]['vid'], 'return')
        except (AnalysisBroken, KeyError, IndexError):
            chain, tail = None, None
        if chain:
            out.append((fn, ps[0]['vid'], chain, tail))
            continue
        if 'int' not in (ps[0].get('t') or '') or fn.f.get('ret') not in ('unsigned int', 'graphite2::uint32', 'uint32', 'gr_uint32'):
            continue
        try:
            chain, ident = abstract_chain(fn, ps[0]['vid'])
        except (KeyError, IndexError, TypeError):
            chain, ident = None, False
        if chain:
            out.append((fn, ps[0]['vid'], chain, ('abstract', ident)))
        elif fn.q.split('::')[-1] in called_on_tags(fx):
            out.append((fn, ps[0]['vid'], None, ('grid', None)))
    return out


def called_on_tags(fx):
    """names of the one-argument helpers the tag-taking entry points pass their tag parameter to"""
    if hasattr(fx, '_tag_helpers'):
        return fx._tag_helpers
    out = set()
    for q, pname in (('gr_face_featureval_for_lang', 'langname'), ('gr_face_find_fref', 'featId')):
        for fn in fx.fns_named(q):
            vids = [p_['vid'] for p_ in fn.f['params'] if p_['n'] == pname]
            for e in calls_in_(fn):
                if vids and e.get('args') and len(e['args']) == 1 and _is_var(fn, e['args'][0], vids[0]):
                    out.add((e.get('fq') or '').split('::')[-1])
    fx._tag_helpers = out
    return out


GRID = (0x00, 0x01, 0x1F, 0x20, 0x21, 0x41, 0x7F, 0x80, 0xA0, 0xFF)


def grid_eval(fx, fn):
    """a normaliser whose body is not a recognisable padding chain (bit tricks, a loop) is interpreted from its own CFG (rules/ordint.py)
    on every tag whose four bytes are taken from GRID -- below, at and above the space, with and without the high bit -- and compared
    with the definition: the trailing run of 0x20 bytes becomes 0x00, nothing else changes.  Bounded: 10^4 tags, not all 2^32."""
    from . import ordint as O
    import itertools
    n = 0
    for bs in itertools.product(GRID, repeat=4):
        x = (bs[0] << 24) | (bs[1] << 16) | (bs[2] << 8) | bs[3]
        want = list(bs)
        for k in (3, 2, 1, 0):
            if want[k] != 0x20:
                break
            want[k] = 0
        w = (want[0] << 24) | (want[1] << 16) | (want[2] << 8) | want[3]
        it = O.Interp(fx)
        it.MAX_STEPS = 2000
        it.lz_arith_ok = True
        n += 1
        try:
            got = it.call(fn, None, [x])
        except O.Violation as v:
            return n, 'tag %#010x: %s (%s)' % (x, v.what, v.loc)
        if not isinstance(got, int) or (got & 0xFFFFFFFF) != w:
            return n, 'tag %#010x is mapped to %s, its zero-padded form is %#010x' % (x, ('%#010x' % (got & 0xFFFFFFFF)) if isinstance(got, int) else repr(got), w)
    return n, None


def _check_chain(run, rule, name, fn, chain):
    for idx, want in enumerate(EXPECT):
        inst = '%s case %d' % (name, 4 - idx)
        got = chain[idx] if idx < len(chain) else None
        if got == want:
            run.held(rule, inst, fn.where(), '(x & %#x) == %#x -> x & %#x' % want)
        else:
            run.violated(rule, inst, fn.where(),
                         'padding case %d (%d trailing spaces) is %s, expected (mask %#x, pad %#x, keep %#x): '
                         'a space-padded tag is not mapped to its zero-padded form'
                         % (idx, 4 - idx, got, want[0], want[1], want[2]), {'chain': chain})
    if len(chain) > len(EXPECT):
        run.violated(rule, '%s extra case' % name, fn.where(), 'unexpected additional padding case %s' % (chain[len(EXPECT):],))


def _normalised_uses(fn, vid, norm_names):
    """forward dataflow: [(use element, normalised-on-every-path?)] for the uses of parameter vid in calls and comparisons"""
    norm_in = {b: None for b in fn.blocks}
    norm_in[fn.entry] = False
    work = [fn.entry]
    uses = {}
    while work:
        b = work.pop()
        st = norm_in[b]
        for e in fn.blocks[b]['el']:
            if e['k'] == 'BinaryOperator' and e['op'] == '=' and _is_var(fn, e['c'][0], vid):
                rhs = fn.strip_all_casts(e['c'][1])
                st = bool(rhs['k'] == 'CallExpr' and rhs.get('fq') in norm_names and _is_var(fn, rhs['args'][0], vid))
            elif e['k'] in ('CallExpr', 'CXXMemberCallExpr', 'CXXConstructExpr', 'CXXOperatorCallExpr'):
                if e.get('fq') in norm_names:
                    continue
                args = e.get('args', e.get('c', []))
                for a in args or []:
                    if a is not None and _is_var(fn, a, vid):
                        uses[e['i']] = (e, st and uses.get(e['i'], (None, True))[1])
            elif e['k'] == 'BinaryOperator' and e['op'] in ('==', '!=', '<', '>', '<=', '>='):
                if any(_is_var(fn, c, vid) for c in e['c']):
                    uses[e['i']] = (e, st and uses.get(e['i'], (None, True))[1])
        for s in fn.succs(b):
            new = st if norm_in[s] is None else (norm_in[s] and st)
            if norm_in[s] is None or new != norm_in[s]:
                norm_in[s] = new
                work.append(s)
    return list(uses.values())


def check(run, fx, rule):
    # --- the implementations of the normalisation ------------------------------------------
    norms = normalisers(fx)
    if not norms:
        raise AnalysisBroken('no tag normaliser (a function of one tag whose body is the padding chain, like zeropad) was found')
    norm_names = set()
    for fn, vid, chain, tail in norms:
        name = fn.q.split('::')[-1]
        norm_names.add(fn.q)
        if isinstance(tail, tuple) and tail[0] == 'grid':
            from . import ordint as O
            inst = '%s maps every grid tag to its zero-padded form' % name
            try:
                n_, bad = grid_eval(fx, fn)
            except O.AnalysisBroken as ex:
                raise AnalysisBroken('tag normaliser %s is neither a padding chain nor interpretable: %s' % (name, ex))
            if bad:
                run.violated(rule, inst, fn.where(), '%s: a space-padded tag and the zero-padded tag stored in the font no longer select the same script / language / feature, or an '
                             'unpadded tag is altered' % bad)
            else:
                run.held(rule, inst, fn.where(), '%d tags over the byte grid %s interpreted' % (n_, [hex(b) for b in GRID]))
            continue
        _check_chain(run, rule, name, fn, chain)
        if isinstance(tail, tuple) and tail[0] == 'abstract':
            ok = tail[1]
        else:
            ok = any(e['k'] == 'ReturnStmt' and _is_var(fn, e['c'][0], vid) for e in fn.blocks[tail]['el'])
        if ok:
            run.held(rule, '%s identity' % name, fn.where(), 'unpadded tags are returned unchanged')
        else:
            run.violated(rule, '%s identity' % name, fn.where(), 'the fall-through of %s does not return its argument' % name)
    mi = fx.one('(anonymous namespace)::makeAndInitialize')
    sp = [p for p in mi.f['params'] if p['n'] == 'script']
    if not sp:
        sp = [p for p in mi.f['params'] if 'int' in p.get('t', '') and '*' not in p.get('t', '')][:1]
    if not sp:
        raise AnalysisBroken('makeAndInitialize: script parameter not found')
    svid = sp[0]['vid']
    mchain, mblocks, mtail = extract_chain(mi, svid, 'assign')
    if mchain:
        _check_chain(run, rule, 'makeAndInitialize', mi, mchain)
    # --- entries: parameter redefined through zeropad before any other use -----------------
    for q, pname in (('gr_face_featureval_for_lang', 'langname'), ('gr_face_find_fref', 'featId')):
        fn = fx.one(q)
        ps = [p for p in fn.f['params'] if p['n'] == pname]
        if not ps:
            raise AnalysisBroken('%s: parameter %s not found' % (q, pname))
        vid = ps[0]['vid']
        uses = _normalised_uses(fn, vid, norm_names)
        through = [e for e in calls_in_(fn) if e.get('fq') in norm_names and e.get('args') and _is_var(fn, e['args'][0], vid)]
        if not uses and through:
            run.held(rule, '%s(%s) only enters the normaliser' % (q, pname), fn.loc(through[0]), 'the raw tag is used for nothing but the normaliser call')
            continue
        if not uses:
            raise AnalysisBroken('%s: the tag parameter is never used' % q)
        for e, st in uses:
            inst = '%s(%s) -> %s' % (q, pname, e.get('fq', e['k']))
            if 'operator<<' in (e.get('fq') or ''):
                continue                    # written to the json trace of a tracing build: a record of the request, not a lookup
            if st:
                run.held(rule, inst, fn.loc(e), 'use dominated by %s = <normaliser>(%s)' % (pname, pname))
            else:
                run.violated(rule, inst, fn.loc(e),
                             'tag parameter %s reaches %s without passing through the tag normaliser: a space-padded '
                             'tag will not match the zero-padded tag stored in the font' % (pname, e.get('fq', e['k'])), None)

    # --- gr_make_seg forwards script only to makeAndInitialize; uses there lie after the chain
    gm = fx.one('gr_make_seg')
    gs = [p for p in gm.f['params'] if p['n'] == 'script'][0]['vid']
    nuse = 0
    for _, e in gm.elements():
        if e['k'] == 'DeclRefExpr' and e.get('vid') == gs:
            nuse += 1
        if e['k'] in ('CallExpr', 'CXXMemberCallExpr', 'CXXConstructExpr'):
            for a in e.get('args', e.get('c', [])) or []:
                if a is not None and _is_var(gm, a, gs):
                    inst = 'gr_make_seg(script) -> %s' % e.get('fq')
                    if e.get('fq') == '(anonymous namespace)::makeAndInitialize':
                        run.held(rule, inst, gm.loc(e), 'forwarded to the normalising helper')
                    else:
                        run.violated(rule, inst, gm.loc(e), 'script reaches %s without normalisation' % e.get('fq'))
    if mchain:
        for _, e in mi.elements():
            if e['k'] in ('CallExpr', 'CXXMemberCallExpr', 'CXXConstructExpr'):
                for a in e.get('args', e.get('c', [])) or []:
                    if a is not None and _is_var(mi, a, svid):
                        inst = 'makeAndInitialize(script) -> %s' % e.get('fq')
                        b = mi.block_of[e['i']]
                        if b in mblocks or b not in mi.reachable_from(mtail):
                            run.violated(rule, inst, mi.loc(e), 'script used inside/before the padding chain')
                        else:
                            run.held(rule, inst, mi.loc(e), 'use lies after the padding chain')
    else:
        uses = _normalised_uses(mi, svid, norm_names)
        through = [e for e in calls_in_(mi) if e.get('fq') in norm_names and e.get('args') and _is_var(mi, e['args'][0], svid)]
        if not uses and through:
            run.held(rule, 'makeAndInitialize(script) only enters the normaliser', mi.loc(through[0]), 'the raw script tag is used for nothing but %s(script)' % through[0]['fq'].split('::')[-1])
        elif not uses:
            raise AnalysisBroken('makeAndInitialize: neither an in-line padding chain nor a use of the script parameter was found')
        for e, st in uses:
            inst = 'makeAndInitialize(script) -> %s' % e.get('fq', e['k'])
            if st:
                run.held(rule, inst, mi.loc(e), 'use dominated by script = <normaliser>(script)')
            else:
                run.violated(rule, inst, mi.loc(e), 'script reaches %s without passing through a tag normaliser' % e.get('fq', e['k']))

    # --- chooseSilf does not depend on script ---------------------------------------------------
    cs = fx.one('graphite2::Face::chooseSilf')
    rets = set()
    for _, e in cs.elements():
        if e['k'] == 'ReturnStmt':
            rets.add(cs.render(cs.strip_all_casts(e['c'][0])))
    if rets <= {'0', 'null', 'this->m_silfs'}:
        run.held(rule, 'chooseSilf ignores script', cs.where(), 'returns %s' % sorted(rets), False)
    else:
        raise AnalysisBroken('Face::chooseSilf now returns %s: script selects a Silf, so gr_face_info / '
                             'gr_face_is_char_supported / Segment must be added as TAGNORM instances' % sorted(rets))
