"""TAGNORM (C18.3 / C20.3): a tag supplied through the API is normalised (space padding ->
zero padding) before it can be compared with a value read from the font.

Instances:
  * zeropad() and the in-line chain of makeAndInitialize() implement the same four padding
    cases, most padded first (SIB over the extracted (mask, pad, result-mask) chains);
  * gr_face_featureval_for_lang / gr_face_find_fref redefine their tag parameter through
    zeropad() before any other use; gr_make_seg forwards `script` only to makeAndInitialize,
    whose uses of `script` all lie after its chain;
  * Face::chooseSilf's result does not depend on `script` (so gr_face_info and
    gr_face_is_char_supported, which do not normalise, are not instances).
"""
from .facts import AnalysisBroken

EXPECT = [(0xFFFFFFFF, 0x20202020, 0x00000000),
          (0x00FFFFFF, 0x00202020, 0xFF000000),
          (0x0000FFFF, 0x00002020, 0xFFFF0000),
          (0x000000FF, 0x00000020, 0xFFFFFF00)]


def _const(fn, n):
    n = fn.strip_all_casts(n)
    return n.get('v')


def _is_var(fn, n, vid):
    n = fn.strip_all_casts(n)
    return n['k'] == 'DeclRefExpr' and n.get('vid') == vid


def _test(fn, cond, vid):
    """cond is `x == C` or `(x & M) == C` -> (M, C)"""
    n = fn.strip_all_casts(cond)
    if n['k'] != 'BinaryOperator' or n['op'] != '==':
        return None
    for a, b in ((n['c'][0], n['c'][1]), (n['c'][1], n['c'][0])):
        c = _const(fn, b)
        if c is None:
            continue
        x = fn.strip_all_casts(a)
        if _is_var(fn, x, vid):
            return (0xFFFFFFFF, c & 0xFFFFFFFF)
        if x['k'] == 'BinaryOperator' and x['op'] == '&':
            for p, q in ((x['c'][0], x['c'][1]), (x['c'][1], x['c'][0])):
                m = _const(fn, q)
                if m is not None and _is_var(fn, p, vid):
                    return (m & 0xFFFFFFFF, c & 0xFFFFFFFF)
    return None


def _result_mask(fn, e, vid):
    """e is `0` or `x & R` -> R"""
    n = fn.strip_all_casts(e)
    if n.get('v') == 0:
        return 0
    if n['k'] == 'BinaryOperator' and n['op'] == '&':
        for p, q in ((n['c'][0], n['c'][1]), (n['c'][1], n['c'][0])):
            m = _const(fn, q)
            if m is not None and _is_var(fn, p, vid):
                return m & 0xFFFFFFFF
    return None


def extract_chain(fn, vid, mode):
    """Follow the false edges from the entry; mode 'return' (zeropad) or 'assign'
    (makeAndInitialize).  Returns (chain, chain_blocks, tail_block)."""
    chain, blocks = [], set()
    b = fn.succs(fn.entry)[0]
    while True:
        cond = fn.term_cond(b)
        t = fn.blocks[b].get('term') or {}
        if cond is None or t.get('k') != 'IfStmt':
            break
        mc = _test(fn, cond, vid)
        if mc is None:
            break
        tb, fb = fn.blocks[b]['succ'][0], fn.blocks[b]['succ'][1]
        if tb is None or fb is None:
            raise AnalysisBroken('%s: pruned edge in the padding chain' % fn.q)
        res = None
        for e in fn.blocks[tb]['el']:
            if mode == 'return' and e['k'] == 'ReturnStmt':
                res = _result_mask(fn, e['c'][0], vid)
            if mode == 'assign' and e['k'] == 'BinaryOperator' and e['op'] == '=' and _is_var(fn, e['c'][0], vid):
                res = _result_mask(fn, e['c'][1], vid)
            if mode == 'assign' and e['k'] == 'CompoundAssignOperator' and e['op'] == '&=' and _is_var(fn, e['c'][0], vid):
                m = _const(fn, e['c'][1])
                res = m & 0xFFFFFFFF if m is not None else None
        if res is None:
            raise AnalysisBroken('%s: padding case at %s has an unknown result shape' % (fn.q, fn.loc(cond)))
        chain.append((mc[0], mc[1], res))
        blocks.add(b)
        blocks.add(tb)
        b = fb
    return chain, blocks, b


def normalisers(fx):
    """every function of one 32-bit parameter whose body is a padding chain in return form (zeropad and any helper like it)"""
    out = []
    for fn in fx.all_fns():
        ps = fn.f.get('params') or []
        if len(ps) != 1 or fn.f.get('implicit') or not fn.file.startswith('src/gr_'):
            continue
        try:
            chain, _, tail = extract_chain(fn, ps[0]['vid'], 'return')
        except (AnalysisBroken, KeyError, IndexError):
            continue
        if chain:
            out.append((fn, ps[0]['vid'], chain, tail))
    return out


def _check_chain(run, rule, name, fn, chain):
    for idx, want in enumerate(EXPECT):
        inst = '%s case %d' % (name, 4 - idx)
        got = chain[idx] if idx < len(chain) else None
        if got == want:
            run.held(rule, inst, fn.where(), '(x & %#x) == %#x -> x & %#x' % want)
        else:
            run.violated(rule, inst, fn.where(),
                         'padding case %d (%d trailing spaces) is %s, expected (mask %#x, pad %#x, keep %#x): '
                         'a space-padded tag is not mapped to its zero-padded form'
                         % (idx, 4 - idx, got, want[0], want[1], want[2]), {'chain': chain})
    if len(chain) > len(EXPECT):
        run.violated(rule, '%s extra case' % name, fn.where(), 'unexpected additional padding case %s' % (chain[len(EXPECT):],))


def _normalised_uses(fn, vid, norm_names):
    """forward dataflow: [(use element, normalised-on-every-path?)] for the uses of parameter vid in calls and comparisons"""
    norm_in = {b: None for b in fn.blocks}
    norm_in[fn.entry] = False
    work = [fn.entry]
    uses = {}
    while work:
        b = work.pop()
        st = norm_in[b]
        for e in fn.blocks[b]['el']:
            if e['k'] == 'BinaryOperator' and e['op'] == '=' and _is_var(fn, e['c'][0], vid):
                rhs = fn.strip_all_casts(e['c'][1])
                st = bool(rhs['k'] == 'CallExpr' and rhs.get('fq') in norm_names and _is_var(fn, rhs['args'][0], vid))
            elif e['k'] in ('CallExpr', 'CXXMemberCallExpr', 'CXXConstructExpr', 'CXXOperatorCallExpr'):
                if e.get('fq') in norm_names:
                    continue
                args = e.get('args', e.get('c', []))
                for a in args or []:
                    if a is not None and _is_var(fn, a, vid):
                        uses[e['i']] = (e, st and uses.get(e['i'], (None, True))[1])
            elif e['k'] == 'BinaryOperator' and e['op'] in ('==', '!=', '<', '>', '<=', '>='):
                if any(_is_var(fn, c, vid) for c in e['c']):
                    uses[e['i']] = (e, st and uses.get(e['i'], (None, True))[1])
        for s in fn.succs(b):
            new = st if norm_in[s] is None else (norm_in[s] and st)
            if norm_in[s] is None or new != norm_in[s]:
                norm_in[s] = new
                work.append(s)
    return list(uses.values())


def check(run, fx, rule):
    # --- the implementations of the normalisation ------------------------------------------
    norms = normalisers(fx)
    if not norms:
        raise AnalysisBroken('no tag normaliser (a function of one tag whose body is the padding chain, like zeropad) was found')
    norm_names = set()
    for fn, vid, chain, tail in norms:
        name = fn.q.split('::')[-1]
        norm_names.add(fn.q)
        _check_chain(run, rule, name, fn, chain)
        ok = any(e['k'] == 'ReturnStmt' and _is_var(fn, e['c'][0], vid) for e in fn.blocks[tail]['el'])
        if ok:
            run.held(rule, '%s identity' % name, fn.where(), 'unpadded tags are returned unchanged')
        else:
            run.violated(rule, '%s identity' % name, fn.where(), 'the fall-through of %s does not return its argument' % name)
    mi = fx.one('(anonymous namespace)::makeAndInitialize')
    sp = [p for p in mi.f['params'] if p['n'] == 'script']
    if not sp:
        sp = [p for p in mi.f['params'] if 'int' in p.get('t', '') and '*' not in p.get('t', '')][:1]
    if not sp:
        raise AnalysisBroken('makeAndInitialize: script parameter not found')
    svid = sp[0]['vid']
    mchain, mblocks, mtail = extract_chain(mi, svid, 'assign')
    if mchain:
        _check_chain(run, rule, 'makeAndInitialize', mi, mchain)
    # --- entries: parameter redefined through zeropad before any other use -----------------
    for q, pname in (('gr_face_featureval_for_lang', 'langname'), ('gr_face_find_fref', 'featId')):
        fn = fx.one(q)
        ps = [p for p in fn.f['params'] if p['n'] == pname]
        if not ps:
            raise AnalysisBroken('%s: parameter %s not found' % (q, pname))
        vid = ps[0]['vid']
        uses = _normalised_uses(fn, vid, norm_names)
        if not uses:
            raise AnalysisBroken('%s: the tag parameter is never used' % q)
        for e, st in uses:
            inst = '%s(%s) -> %s' % (q, pname, e.get('fq', e['k']))
            if st:
                run.held(rule, inst, fn.loc(e), 'use dominated by %s = <normaliser>(%s)' % (pname, pname))
            else:
                run.violated(rule, inst, fn.loc(e),
                             'tag parameter %s reaches %s without passing through the tag normaliser: a space-padded '
                             'tag will not match the zero-padded tag stored in the font' % (pname, e.get('fq', e['k'])), None)

    # --- gr_make_seg forwards script only to makeAndInitialize; uses there lie after the chain
    gm = fx.one('gr_make_seg')
    gs = [p for p in gm.f['params'] if p['n'] == 'script'][0]['vid']
    nuse = 0
    for _, e in gm.elements():
        if e['k'] == 'DeclRefExpr' and e.get('vid') == gs:
            nuse += 1
        if e['k'] in ('CallExpr', 'CXXMemberCallExpr', 'CXXConstructExpr'):
            for a in e.get('args', e.get('c', [])) or []:
                if a is not None and _is_var(gm, a, gs):
                    inst = 'gr_make_seg(script) -> %s' % e.get('fq')
                    if e.get('fq') == '(anonymous namespace)::makeAndInitialize':
                        run.held(rule, inst, gm.loc(e), 'forwarded to the normalising helper')
                    else:
                        run.violated(rule, inst, gm.loc(e), 'script reaches %s without normalisation' % e.get('fq'))
    if mchain:
        for _, e in mi.elements():
            if e['k'] in ('CallExpr', 'CXXMemberCallExpr', 'CXXConstructExpr'):
                for a in e.get('args', e.get('c', [])) or []:
                    if a is not None and _is_var(mi, a, svid):
                        inst = 'makeAndInitialize(script) -> %s' % e.get('fq')
                        b = mi.block_of[e['i']]
                        if b in mblocks or b not in mi.reachable_from(mtail):
                            run.violated(rule, inst, mi.loc(e), 'script used inside/before the padding chain')
                        else:
                            run.held(rule, inst, mi.loc(e), 'use lies after the padding chain')
    else:
        uses = _normalised_uses(mi, svid, norm_names)
        if not uses:
            raise AnalysisBroken('makeAndInitialize: neither an in-line padding chain nor a use of the script parameter was found')
        for e, st in uses:
            inst = 'makeAndInitialize(script) -> %s' % e.get('fq', e['k'])
            if st:
                run.held(rule, inst, mi.loc(e), 'use dominated by script = <normaliser>(script)')
            else:
                run.violated(rule, inst, mi.loc(e), 'script reaches %s without passing through a tag normaliser' % e.get('fq', e['k']))

    # --- chooseSilf does not depend on script ---------------------------------------------------
    cs = fx.one('graphite2::Face::chooseSilf')
    rets = set()
    for _, e in cs.elements():
        if e['k'] == 'ReturnStmt':
            rets.add(cs.render(cs.strip_all_casts(e['c'][0])))
    if rets <= {'0', 'null', 'this->m_silfs'}:
        run.held(rule, 'chooseSilf ignores script', cs.where(), 'returns %s' % sorted(rets), False)
    else:
        raise AnalysisBroken('Face::chooseSilf now returns %s: script selects a Silf, so gr_face_info / '
                             'gr_face_is_char_supported / Segment must be added as TAGNORM instances' % sorted(rets))
