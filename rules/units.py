"""UNITS engine (C15): a two-point dimension analysis -- design units (du) vs pixels (px) -- of the
float arithmetic in the functions that apply the font scale.

Sources are tabled by resolved declaration (fields, getters, parameters); Font::scale() and locals
initialised from it carry the unit `scale`.  Algebra: du * scale = px, px / scale = du,
x (+|-|compare) y requires equal units, literals and dimensionless factors are polymorphic, an
unknown unit is compatible with everything (so only a definite du/px mix is reported).  Units of
locals are flow-sensitive (shift is du before `shift *= scale`, px after).  Only paths on which
`font` is non-null are analysed: with font == NULL the scale is 1 and the two units coincide.
"""
from .facts import AnalysisBroken

DU, PX, SC, ANY = 'du', 'px', 'scale', None

FIELD_UNITS = {
    'graphite2::Slot::m_shift': DU, 'graphite2::Slot::m_just': DU, 'graphite2::Slot::m_advance': DU, 'graphite2::Slot::m_attach': DU,
    'graphite2::Slot::m_with': DU, 'graphite2::Slot::m_position': PX,
}
CALL_UNITS = {
    'graphite2::Font::scale': SC, 'graphite2::Font::advance': PX, 'graphite2::Slot::origin': PX, 'graphite2::Slot::advance': DU,
    'graphite2::Slot::advancePos': DU, 'graphite2::SlotCollision::offset': DU, 'graphite2::SlotCollision::shift': DU,
    'graphite2::GlyphFace::theAdvance': DU, 'graphite2::GlyphFace::theBBox': DU, 'graphite2::Slot::just': DU,
    'graphite2::Segment::positionSlots': PX, 'graphite2::Slot::finalise': PX,
}


class UnitCheck:
    def __init__(self, fn, param_units, font_param='font', ret_unit=None):
        self.ret_unit = ret_unit
        self.fn = fn
        self.param_units = param_units
        self.font_param = font_param
        self.problems = {}
        self.npaths = 0
        self.nops = 0

    def run(self):
        fn = self.fn
        env = {}
        for p in fn.f['params']:
            if p['n'] in self.param_units:
                env[p['vid']] = self.param_units[p['n']]
        self._walk(fn.entry, env, {}, {})
        return self.problems

    def _walk(self, b, env, val, visits):
        fn = self.fn
        while True:
            visits = dict(visits)
            visits[b] = visits.get(b, 0) + 1
            if visits[b] > 2 or self.npaths > 4000:
                return
            blk = fn.blocks[b]
            for e in blk['el']:
                self._eval(e, env, val)
            succ = blk['succ']
            if b == fn.exit or not succ:
                self.npaths += 1
                return
            if len(succ) == 1:
                if succ[0] is None:
                    return
                b = succ[0]
                continue
            cond = fn.term_cond(b)
            skip = None
            if cond is not None and len(succ) == 2:
                from . import dom
                for idx_, pol_ in ((0, True), (1, False)):
                    try:
                        ats = [dom.norm(fn, a_, p_) for a_, p_ in dom.atoms(fn, cond, pol_, inline=False, cond_expand=False)]
                    except Exception:
                        ats = []
                    if any(f[0] == self.font_param and f[1] == '==' and f[2] == '0' for f in ats):
                        skip = idx_             # the edge on which font is null
            if cond is not None and len(succ) == 2 and skip is None:
                c = fn.strip(cond)
                neg = False
                while c['k'] == 'UnaryOperator' and c['op'] == '!':
                    neg = not neg
                    c = fn.strip(c['c'][0])
                if c['k'] == 'ImplicitCastExpr' and c.get('ck') == 'PointerToBoolean':
                    x = fn.strip_all_casts(c['c'][0])
                    if x['k'] == 'DeclRefExpr' and x['d'].split('::')[-1] == self.font_param:
                        skip = 0 if neg else 1          # skip the edge on which font is null
            for idx, s in enumerate(succ):
                if s is None or idx == skip:
                    continue
                self._walk(s, dict(env), dict(val), visits)
            return

    def _u(self, x, val):
        if isinstance(x, int):
            return val.get(x, ANY)
        n = self.fn.N(x)
        # inline wrapper nodes (ExprWithCleanups etc. are not CFG elements): look through them
        if isinstance(n, dict) and n.get('c') and (n['k'] in ('ExprWithCleanups', 'ParenExpr', 'MaterializeTemporaryExpr', 'CXXBindTemporaryExpr', 'ConstantExpr')
                                                   or n['k'].endswith('CastExpr')):
            return self._u(n['c'][0], val)
        return ANY

    def _combine(self, e, a, b, what):
        """units of an additive / comparing operation"""
        self.nops += 1
        if a in (DU, PX) and b in (DU, PX) and a != b:
            self._flag(e, '%s mixes %s and %s' % (what, a, b))
            return ANY
        if a == SC or b == SC:
            if (a == SC and b in (DU, PX)) or (b == SC and a in (DU, PX)):
                self._flag(e, '%s combines the scale factor with a length' % what)
            return ANY
        return a if a in (DU, PX) else b

    def _const(self, x):
        fn = self.fn
        n = fn.strip_all_casts(x)
        neg = False
        if n['k'] == 'UnaryOperator' and n.get('op') == '-' and n.get('c'):
            n, neg = fn.strip_all_casts(n['c'][0]), True
        v = n.get('v')
        if v is None and n['k'] == 'FloatingLiteral':
            v = n.get('fv', n.get('val'))
        try:
            v = float(v)
        except (TypeError, ValueError):
            return None
        return -v if neg else v

    def _flag(self, e, text):
        fn = self.fn
        key = (e.get('ln'), e.get('col'), text)
        self.problems.setdefault(key, (fn.loc(e), text, fn.render(e)[:160]))

    def _mul(self, e, a, b, div=False):
        self.nops += 1
        if not div:
            if SC in (a, b):
                o = b if a == SC else a
                if o == DU:
                    return PX
                if o == PX:
                    self._flag(e, 'a pixel value is multiplied by the scale again')
                    return ANY
                if o == SC:
                    return ANY
                return ANY if o is ANY else o
            if a in (DU, PX) and b in (DU, PX):
                return ANY
            return a if a in (DU, PX) else b
        # division a / b
        if b == SC:
            if a == PX:
                return DU
            if a == DU:
                self._flag(e, 'a design-unit value is divided by the scale')
                return ANY
            return ANY
        if a in (DU, PX) and b in (DU, PX):
            if a != b:
                self._flag(e, 'ratio of %s and %s' % (a, b))
            return ANY
        return a

    def _eval(self, e, env, val):
        fn = self.fn
        k, i = e['k'], e['i']
        c = e.get('c') or []
        u = ANY
        if k == 'DeclRefExpr':
            if e.get('vid') is not None:
                u = env.get(e['vid'], ANY)
            val[i] = u
            return
        if k == 'MemberExpr':
            d = e['d']
            if d in FIELD_UNITS:
                u = FIELD_UNITS[d]
            elif d in ('graphite2::Position::x', 'graphite2::Position::y', 'graphite2::Rect::bl', 'graphite2::Rect::tr'):
                u = self._u(c[0], val) if c else ANY
            val[i] = u
            return
        if k in ('FloatingLiteral', 'IntegerLiteral', 'CXXBoolLiteralExpr', 'CharacterLiteral'):
            val[i] = ANY
            return
        if k in ('ParenExpr', 'ExprWithCleanups', 'MaterializeTemporaryExpr', 'CXXBindTemporaryExpr', 'ConstantExpr') or k.endswith('CastExpr'):
            val[i] = self._u(c[0], val) if c else ANY
            return
        if k == 'UnaryOperator':
            val[i] = self._u(c[0], val) if e['op'] in ('-', '+') else ANY
            return
        if k in ('BinaryOperator', 'CompoundAssignOperator'):
            op = e['op']
            a, b = self._u(c[0], val), self._u(c[1], val)
            if op in ('+', '-'):
                u = self._combine(e, a, b, 'the %s' % ('sum' if op == '+' else 'difference'))
            elif op in ('<', '>', '<=', '>=', '==', '!='):
                self._combine(e, a, b, 'the comparison')
                # a threshold in absolute numbers is a design-unit threshold: the same test on a pixel value flips with the scale
                for side, other in ((a, c[1]), (b, c[0])):
                    if side == PX:
                        k_ = self._const(other)
                        if k_ is not None and k_ != 0:
                            self._flag(e, 'a pixel value is compared with the absolute threshold %s (the outcome depends on the scale; '
                                          'with font == NULL the same test is made in design units)' % k_)
                u = ANY
            elif op == '*':
                u = self._mul(e, a, b)
            elif op == '/':
                u = self._mul(e, a, b, div=True)
            elif op == '=':
                self._assign(e, c[0], b, env, val)
                u = b
            elif op in ('+=', '-='):
                self._combine(e, a, b, 'the accumulation')
                u = a if a in (DU, PX) else b
                self._assign(e, c[0], u, env, val, check=False)
            elif op in ('*=', '/='):
                u = self._mul(e, a, b, div=(op == '/='))
                self._assign(e, c[0], u, env, val, check=False)
            elif op == ',':
                u = b
            val[i] = u
            return
        if k == 'ReturnStmt':
            if self.ret_unit and c:
                u = self._u(c[0], val)
                self.nops += 1
                if u in (DU, PX) and u != self.ret_unit:
                    self._flag(e, 'a %s value is returned where the caller gets %s' % (u, self.ret_unit))
            return
        if k == 'ConditionalOperator':
            # only the arm evaluated on this path has a value
            if isinstance(c[1], int) and isinstance(c[2], int) and (c[1] in val) != (c[2] in val):
                val[i] = self._u(c[1] if c[1] in val else c[2], val)
                return
            a, b = self._u(c[1], val), self._u(c[2], val)
            if a in (DU, PX) and b in (DU, PX) and a != b:
                self._flag(e, 'the two arms of ?: have units %s and %s' % (a, b))
            val[i] = a if a is not ANY else b
            if a == SC or b == SC:
                val[i] = SC
            return
        if k == 'DeclStmt':
            for d in e['decls']:
                if d.get('dk') == 'Var' and d.get('init') is not None:
                    env[d['vid']] = self._u(d['init'], val)
            return
        if k in ('CXXConstructExpr', 'CXXTemporaryObjectExpr'):
            fq = e.get('fq') or ''
            if fq.startswith('graphite2::Position::Position') or fq.startswith('graphite2::Rect::Rect'):
                us = [self._u(x, val) for x in c]
                ds = [x for x in us if x in (DU, PX)]
                if len(set(ds)) > 1:
                    self._flag(e, 'a Position/Rect is built from components with units %s' % ds)
                u = ds[0] if ds else ANY
            val[i] = u
            return
        if k in ('CallExpr', 'CXXMemberCallExpr', 'CXXOperatorCallExpr'):
            fq = e.get('fq') or ''
            args = e.get('args') or []
            if fq in CALL_UNITS:
                u = CALL_UNITS[fq]
            elif fq.split('::')[-1] in ('operator+', 'operator-') and len(args) == 2:
                u = self._combine(e, self._u(args[0], val), self._u(args[1], val), 'the %s' % ('sum' if fq.endswith('+') else 'difference'))
            elif fq.split('::')[-1] == 'operator*' and len(args) == 2:
                u = self._mul(e, self._u(args[0], val), self._u(args[1], val))
            elif fq.split('::')[-1] in ('operator+=', 'operator-=') and len(args) == 2:
                a, b = self._u(args[0], val), self._u(args[1], val)
                self._combine(e, a, b, 'the accumulation')
                u = a if a in (DU, PX) else b
                self._assign(e, args[0], u, env, val, check=False)
            elif fq.split('::')[-1] == 'operator*=' and len(args) == 2:
                u = self._mul(e, self._u(args[0], val), self._u(args[1], val))
                self._assign(e, args[0], u, env, val, check=False)
            elif fq.split('::')[-1] == 'operator=' and len(args) == 2:
                u = self._u(args[1], val)
                self._assign(e, args[0], u, env, val)
            elif fq.split('::')[-1] == 'widen' and e.get('obj') is not None and args:
                u = self._combine(e, self._u(e['obj'], val), self._u(args[0], val), 'the bounding-box union')
            val[i] = u
            return
        val[i] = ANY

    def _assign(self, e, lhs, u, env, val, check=True):
        fn = self.fn
        n = fn.strip(lhs)
        if n['k'] == 'DeclRefExpr' and n.get('vid') is not None:
            env[n['vid']] = u
        elif n['k'] == 'MemberExpr':
            d = n['d']
            tgt = FIELD_UNITS.get(d)
            if tgt is None and d in ('graphite2::Position::x', 'graphite2::Position::y') and n.get('c'):
                b = fn.strip(n['c'][0])
                if b['k'] == 'MemberExpr':
                    tgt = FIELD_UNITS.get(b['d'])
                elif b['k'] == 'DeclRefExpr' and b.get('vid') is not None and check:
                    tgt = env.get(b['vid'])
            if check and tgt in (DU, PX) and u in (DU, PX) and tgt != u:
                self._flag(e, 'a %s value is stored into %s, which holds %s' % (u, d.split('::')[-1], tgt))
