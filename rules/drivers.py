"""DRIVERS (C07.4): the direct-threaded and the call-threaded interpreter drivers agree.

Both include inc/opcodes.h, so the handler bodies are the same text; what can differ are
the driver macros (STARTOP/ENDOP/EXIT, register names), the register initialisation and the
epilogue.  Decided here, from both units' facts:
  * every handler region of direct_run (label .. indirect goto) has the same effect summary
    (exit kinds, net stack effect, operand bytes, normalised cells, callee sequence) as the
    call-threaded function of the same name;
  * the direct ENDOP continue test is the same unsigned-divisor range test;
  * initial register values: the call driver's `regbank` aggregate initialises each field BY
    NAME from the matching source, the direct driver's locals likewise, and field/local types agree;
  * both Machine::run epilogues write back map and *map = is.
"""
import re
from .facts import AnalysisBroken
from .vmsym import StackReset, HandlerSym, show
from . import opspec



def _canon(fn, canonical):
    """rename the parameters of fn to their canonical (positional) names in a rendered expression: the rules are about which
    value flows where, not about what a parameter is called"""
    ps = fn.f.get('params') or []
    ren = {p['n']: c for p, c in zip(ps, canonical) if p.get('n') and p['n'] != c}

    def f(text):
        if text is None or not ren:
            return text
        return re.sub(r'(?<![\w.>])(%s)\b' % '|'.join(re.escape(k) for k in ren), lambda m: ren[m.group(1)], text)
    return f


def _summary(leaves):
    out = set()
    for l in leaves:
        cells = tuple(sorted((o, re.sub(r'#\d+', '', opspec.show(opspec.canon(v)))) for o, v in l.cells.items()))
        calls = tuple(c[0] for c in l.calls if c[0] != '<write>')
        out.add((l.exit, l.spoff, l.dpoff, cells, calls, tuple(sorted(set(d[0] for d in l.dpvar)))))
    return out


def direct_regions(vm):
    fx = vm.fx
    dr = fx.one('(anonymous namespace)::direct_run')
    roles = {}
    for _, e in dr.elements():
        if e['k'] == 'DeclStmt':
            for d in e['decls']:
                if d.get('n') in ('sp', 'dp', 'sb', 'ip', 'map', 'is', 'mapb', 'dir', 'flags', 'smap', 'seg'):
                    roles[d['n']] = d
    for r in ('sp', 'dp', 'sb'):
        if r not in roles:
            raise AnalysisBroken('direct_run: register %s not declared' % r)
    labels = {}
    for b, blk in dr.blocks.items():
        lab = blk.get('label') or {}
        if lab.get('k') == 'LabelStmt':
            labels[lab['label']] = b
    return dr, roles, labels


def check(run, vm):
    fx = vm.fx
    dr, roles, labels = direct_regions(vm)
    vroles = {'sp': roles['sp']['vid'], 'dp': roles['dp']['vid'], 'sb': roles['sb']['vid'], 'reg': -1}
    stack_max = None
    for v in fx.raw['vars']:
        if v['q'] == 'graphite2::vm::Machine::STACK_MAX':
            from .vmrules import _const_of
            stack_max = _const_of(v)
    # ---- handler regions ---------------------------------------------------------------------
    for h in sorted(vm.handlers):
        inst = 'handler %s' % h
        if h not in labels:
            run.violated('DRIVERS', inst, dr.where(), 'handler %s exists in the call-threaded driver but has no label in direct_run' % h)
            continue
        try:
            dl = HandlerSym(dr, roles=vroles, start=labels[h]).run()
        except StackReset as e:
            run.violated('DRIVERS', inst, '%s:%s' % (dr.file, (dr.blocks[labels[h]].get('label') or {}).get('ln')), 'direct region: %s -- whatever the program left on the stack is discarded before the '
                         'machine stops, so the epilogue\'s `sp == base + 1` test (result) and check_final_stack (stack_not_empty) see a balanced stack; the call-threaded handler does no such thing: the '
                         'two interpreter builds return different values and statuses for the same program' % e)
            continue
        except AnalysisBroken as e:
            run.broken('DRIVERS', inst, 'direct region: %s' % e)
            continue
        cl = vm.sym(h)
        ds, cs = _summary(dl), _summary(cl)
        probs = []
        if ds != cs:
            only_d = sorted(ds - cs)[:2]
            only_c = sorted(cs - ds)[:2]
            probs.append('effects differ: direct-only %s, call-only %s' % (only_d, only_c))
        for l in dl:
            if l.exit == 'ENDOP':
                eo = l.endop
                if eo.get('sp_offset_used') != l.spoff or eo.get('divisor') != str(stack_max) or \
                        not eo.get('divisor_type') or eo['divisor_type'][1] is not False:
                    probs.append('direct ENDOP continue test is not the unsigned (sp - sb)/STACK_MAX range test: %s' % eo)
                    break
            if l.exit == 'OTHER':
                probs.append('direct region leaves through %s' % l.endop)
                break
        if probs:
            run.violated('DRIVERS', inst, '%s:%s' % (dr.file, (dr.blocks[labels[h]].get('label') or {}).get('ln')),
                         'the two interpreter builds disagree on %s: %s' % (h, '; '.join(probs)))
        else:
            run.held('DRIVERS', inst, '%s:%s' % (dr.file, (dr.blocks[labels[h]].get('label') or {}).get('ln')),
                     '%d direct paths / %d call paths, identical effect summaries' % (len(dl), len(cl)))
    extra = sorted(set(labels) - set(vm.handlers) - {'end'})
    if extra:
        run.violated('DRIVERS', 'labels', dr.where(), 'direct_run has handler labels unknown to the call-threaded driver: %s' % extra)

    # ---- register initialisation ----------------------------------------------------------------
    runs = {f.f['unit']: f for f in fx.fns_named('graphite2::vm::Machine::run')}
    if set(runs) != {'call_machine.cpp', 'direct_machine.cpp'}:
        raise AnalysisBroken('Machine::run not found in both drivers: %s' % sorted(runs))
    crun, drun = runs['call_machine.cpp'], runs['direct_machine.cpp']
    if len(crun.f['params']) != 3 or len(drun.f['params']) != 3 or len(dr.f['params']) != 8:
        raise AnalysisBroken('Machine::run / direct_run changed their parameter lists: re-confirm the positional roles in rules/drivers.py')
    cren = _canon(crun, ['program', 'data', 'map'])
    dren = _canon(drun, ['program', 'data', 'is'])
    rren = _canon(dr, ['get_table_mode', 'program', 'data', 'stack', '__map', '_dir', 'status', '__smap'])
    rb = fx.record('regbank')
    fields = [f['n'] for f in rb['fields']]
    ftypes = {f['n']: f['t'] for f in rb['fields']}
    init = None
    sp_init = dp_init = ip_init = sb_init = None
    for _, e in crun.elements():
        if e['k'] == 'DeclStmt':
            for d in e['decls']:
                if d.get('n') == 'reg' and d.get('init') is not None:
                    init = crun.N(d['init'])
                if d.get('n') == 'sp':
                    sp_init = cren(crun.render(d['init']))
                if d.get('n') == 'dp':
                    dp_init = cren(crun.render(d['init']))
                if d.get('n') == 'ip':
                    ip_init = cren(crun.render(d['init']))
                if d.get('n') == 'sb':
                    sb_init = cren(crun.render(d['init']))
    if init is None:
        raise AnalysisBroken('call_machine Machine::run: `regbank reg = {...}` not found')
    while init['k'] != 'InitListExpr' and init.get('c'):
        init = crun.N(init['c'][0])
    vals = [cren(crun.render(c)) for c in init.get('c', [])]
    if len(vals) != len(fields):
        raise AnalysisBroken('regbank initialiser has %d values for %d fields' % (len(vals), len(fields)))
    got = dict(zip(fields, vals))
    want_call = {'is': '*map', 'map': 'map', 'smap': 'this->_map', 'map_base': '(this->_map.begin() + this->_map.context())',
                 'ip': 'ip', 'direction': 'this->_map.dir()', 'flags': '0', 'status': 'this->_status'}
    for f, w in want_call.items():
        inst = 'call regbank.%s' % f
        if f not in got:
            run.violated('DRIVERS', inst, crun.where(), 'register %s missing from regbank' % f)
        elif got[f].replace(' ', '') != w.replace(' ', ''):
            run.violated('DRIVERS', inst, crun.where(), 'call-threaded register `%s` is initialised from `%s`, expected `%s` (positional '
                         'aggregate initialisation no longer matches the field order of struct regbank)' % (f, got[f], w))
        else:
            run.held('DRIVERS', inst, crun.where(), '%s = %s' % (f, got[f]))
    # registers that alias the machine's own state: a copy would keep the handlers' writes (DIE / slotat set `status`) in the register bank
    rb_rec = [r_ for k_, r_ in run.facts('Q0').raw['records'].items() if k_.split('::')[-1] == 'regbank']
    if len(rb_rec) != 1:
        raise AnalysisBroken('struct regbank not found')
    ftypes = {f_['n']: (f_.get('t') or '') for f_ in rb_rec[0]['fields']}
    for f, why in (('status', 'the status the handlers set (died_early, slot_offset_out_bounds) must reach Machine::_status, as it does through the reference parameter of direct_run'),
                   ('smap', 'the slot map is the machine\'s own'), ('ip', 'the handlers advance the caller\'s instruction pointer')):
        inst = 'call regbank.%s is a reference' % f
        if ftypes.get(f, '').rstrip().endswith('&'):
            run.held('DRIVERS', inst, crun.where(), ftypes[f])
        else:
            run.violated('DRIVERS', inst, crun.where(), 'register `%s` of the call-threaded interpreter is declared `%s`, a copy: %s -- the two interpreter builds disagree' % (f, ftypes.get(f), why))
    for nm, g, w in (('sp', sp_init, '(this->_stack + graphite2::vm::Machine::STACK_GUARD)'), ('sb', sb_init, 'sp'), ('dp', dp_init, 'data'), ('ip', ip_init, '(program - 1)')):
        inst = 'call %s init' % nm
        if g is not None and g.replace(' ', '') == w.replace(' ', ''):
            run.held('DRIVERS', inst, crun.where(), '%s = %s' % (nm, g), False)
        else:
            run.violated('DRIVERS', inst, crun.where(), 'call-threaded `%s` starts at `%s`, expected `%s`' % (nm, g, w))
    # direct: locals of direct_run + the argument binding at the call in Machine::run
    call = [e for _, e in drun.elements() if e.get('fq') == '(anonymous namespace)::direct_run']
    if len(call) != 1:
        raise AnalysisBroken('direct Machine::run: call of direct_run not found')
    args = [dren(drun.render(a)) for a in call[0]['args']]
    pnames = ['get_table_mode', 'program', 'data', 'stack', '__map', '_dir', 'status', '__smap']
    bind = dict(zip(pnames, args))
    want_bind = {'get_table_mode': '0', 'program': 'program', 'data': 'data', 'stack': 'this->_stack', '__map': 'is',
                 '_dir': 'this->_map.dir()', 'status': 'this->_status', '__smap': '&this->_map'}
    for p, w in want_bind.items():
        inst = 'direct_run(%s)' % p
        g = bind.get(p)
        if g is not None and g.replace(' ', '') in (w.replace(' ', ''), 'false' if w == '0' else w):
            run.held('DRIVERS', inst, drun.loc(call[0]), '%s <- %s' % (p, g), False)
        else:
            run.violated('DRIVERS', inst, drun.loc(call[0]), 'direct_run parameter `%s` receives `%s`, expected `%s`' % (p, g, w))
    want_direct = {'ip': 'program', 'dp': 'data', 'sp': '(stack + graphite2::vm::Machine::STACK_GUARD)', 'sb': 'sp',
                   'smap': '*__smap', 'seg': 'smap.segment', 'is': '*__map', 'map': '__map',
                   'mapb': '(smap.begin() + smap.context())', 'dir': '_dir', 'flags': '0'}
    for r, w in want_direct.items():
        inst = 'direct %s init' % r
        d = roles.get(r)
        g = rren(dr.render(d['init'])) if d is not None and d.get('init') is not None else None
        if g is not None and g.replace(' ', '') == w.replace(' ', ''):
            run.held('DRIVERS', inst, dr.where(), '%s = %s' % (r, g), False)
        else:
            run.violated('DRIVERS', inst, dr.where(), 'direct-threaded register `%s` is initialised from `%s`, expected `%s`' % (r, g, w))
    # types of the corresponding registers
    pairs = {'direction': 'dir', 'flags': 'flags', 'is': 'is', 'map': 'map'}
    for cf, dl_ in pairs.items():
        inst = 'register type %s/%s' % (cf, dl_)
        ct = ftypes.get(cf)
        dt = (roles.get(dl_) or {}).get('t')
        if ct is not None and dt is not None and ct.replace('const ', '') == dt.replace('const ', ''):
            run.held('DRIVERS', inst, rb['file'], '%s' % ct, False)
        else:
            run.violated('DRIVERS', inst, '%s:%s' % (rb['file'], rb['ln']), 'register `%s` is `%s` in the call-threaded driver but `%s` is `%s` in the direct-threaded one'
                         % (cf, ct, dl_, dt))
    # ---- epilogues -------------------------------------------------------------------------------
    def writes(fn):
        # in an order in which a block comes after the blocks that dominate it (the epilogue may branch)
        out = []
        fdom = fn.dominators()
        for b_ in sorted(fn.blocks, key=lambda x: len(fdom.get(x, ()))):
            for e in fn.blocks[b_]['el']:
                if e['k'] == 'BinaryOperator' and e['op'] == '=' and fn.is_root(e['i']):
                    out.append(cren(fn.render(e)).replace(' ', ''))
        return out
    cw = writes(crun)
    dw = []
    end_b = labels.get('end')
    if end_b is None:
        raise AnalysisBroken('direct_run: label end not found')
    # the epilogue is everything reachable from the label (it may branch: a deleted slot in the hand-back cell is freed first), taken in
    # an order in which a block comes after the blocks that dominate it
    reach, todo = [], [end_b]
    while todo:
        b_ = todo.pop(0)
        if b_ in reach:
            continue
        reach.append(b_)
        todo += [x for x in dr.blocks[b_]['succ'] if x not in reach]
    ddom = dr.dominators()
    reach.sort(key=lambda b_: len(ddom[b_]))
    for b_ in reach:
        for e in dr.blocks[b_]['el']:
            if e['k'] == 'BinaryOperator' and e['op'] == '=' and dr.is_root(e['i']):
                dw.append(rren(dr.render(e)).replace(' ', ''))
    # the current slot is stored through the FINAL map position: the pointer is written back first, then the store goes through it
    if '(map=reg.map)' in cw and '(*map=reg.is)' in cw and cw.index('(map=reg.map)') > cw.index('(*map=reg.is)'):
        run.violated('DRIVERS', 'call epilogue', crun.where(), 'call-threaded Machine::run stores the current slot through the map pointer BEFORE writing the final map position back: '
                     'the slot lands in the entry position and the final position is returned unwritten')
    elif '(map=reg.map)' in cw and '(*map=reg.is)' in cw:
        run.held('DRIVERS', 'call epilogue', crun.where(), 'map = reg.map; *map = reg.is')
    else:
        run.violated('DRIVERS', 'call epilogue', crun.where(), 'call-threaded Machine::run does not write back map / *map = is: %s' % cw)
    if '(__map=map)' in dw and '(*__map=is)' in dw and dw.index('(__map=map)') > dw.index('(*__map=is)'):
        run.violated('DRIVERS', 'direct epilogue', dr.where(), 'direct_run stores the current slot through __map BEFORE __map receives the final map position: the slot lands in the '
                     'entry position and the final position is returned unwritten -- the two interpreter builds shape differently when an action ends without NEXT')
    elif '(__map=map)' in dw and '(*__map=is)' in dw:
        run.held('DRIVERS', 'direct epilogue', dr.where(), '__map = map; *__map = is')
    else:
        run.violated('DRIVERS', 'direct epilogue', dr.where(), 'direct_run does not write back __map = map / *__map = is: %s' % dw)
    # the hand-back cell may hold a slot the action deleted (or a temporary copy): overwriting it hides the slot from
    # SlotMap::collectGarbage for good (defect F23), so BOTH epilogues free it first -- same cell, same condition
    from . import dom as _dom
    from .util import reaches_avoiding as _ra
    for nm, fn_, cell, cur in (('call', crun, '*map', 'reg.is'), ('direct', dr, '*__map', 'is')):
        inst = '%s epilogue frees a deleted slot in the hand-back cell' % nm
        store = [e for _, e in fn_.elements() if e['k'] == 'BinaryOperator' and e['op'] == '=' and fn_.is_root(e['i'])
                 and fn_.render(fn_.strip(e['c'][0])).replace(' ', '') == cell and fn_.render(fn_.strip_all_casts(fn_.N(e['c'][1]))).replace(' ', '') == cur]
        frees = [e for _, e in fn_.elements() if (e.get('fq') or '').endswith('Segment::freeSlot') and e.get('args')
                 and fn_.render(fn_.strip_all_casts(fn_.N(e['args'][0]))).replace(' ', '') == cell]
        if len(store) != 1:
            run.broken('DRIVERS', inst, 'the hand-back store %s = %s was not found' % (cell, cur), fn_.where())
            continue
        ok = None
        for fr in frees:
            fs = [f[:3] for f in _dom.facts_at(fn_, fr['i'])]
            conds = ' '.join(fn_.render(c_) for c_, _p in _dom.edge_guards(fn_, fn_.block_of[fr['i']]))
            if (cell, '!=', cur) in fs and (cell, '!=', '0') in fs and _ra(fn_, fr, store[0]):
                ok = fr
        if ok is None:
            run.violated('DRIVERS', inst, fn_.loc(store[0]), 'the %s-threaded interpreter writes the cursor over the current map cell without first freeing a deleted / temporary slot that cell may hold '
                         '(no Segment::freeSlot(%s) under %s != 0 && %s != %s that reaches the store): an action that ends on a slot it deleted loses that slot -- it is never detached '
                         'from its parent\'s child chain; the other interpreter build %s' % (nm, cell, cell, cell, cur, 'frees it' if nm == 'direct' else 'frees it'))
            continue
        # the free must not be narrower than "deleted or copied": every path from the write-back of the map pointer to the store that
        # avoids the free passes a branch that establishes  !isDeleted()  and one that establishes  !isCopied()  (or cell == 0 / cell == cursor)
        blk = fn_.block_of[store[0]['i']]
        need = {'isDeleted': False, 'isCopied': False}
        for cnd, pol in _dom.edge_guards(fn_, blk):
            pass
        esc = {}
        for which in need:
            cut = _dom.edges_with(fn_, lambda f, which=which: (which + '()' in f[0] and cell.lstrip('*') in f[0] and ((f[1] == '==' and f[2] == '0'))) or (f[0].replace(' ', '') == cell and f[1] == '==' and f[2] in ('0', cur)))
            esc[which] = cut
        # paths from the function entry to the store avoiding the free and all cut edges
        def reach_without(cut):
            seen, todo = set(), [fn_.entry]
            fb = fn_.block_of[ok['i']]
            while todo:
                b_ = todo.pop()
                if b_ is None or b_ in seen or b_ == fb:
                    continue
                seen.add(b_)
                if b_ == blk:
                    return True
                for idx_, x_ in enumerate(fn_.blocks[b_]['succ']):
                    if (b_, idx_) not in cut:
                        todo.append(x_)
            return False
        miss = [w_ for w_ in need if reach_without(esc[w_])]
        if miss:
            run.violated('DRIVERS', inst, fn_.loc(ok), 'the %s-threaded epilogue reaches the store %s = %s without the free on a path that has not established !%s(): such a slot in the hand-back cell is '
                         'still lost to SlotMap::collectGarbage' % (nm, cell, cur, miss[0]))
        else:
            run.held('DRIVERS', inst, fn_.loc(ok), 'Segment::freeSlot(%s) under %s != 0 && %s != %s; the store is reached without it only when the cell is neither deleted nor copied' % (cell, cell, cell, cur))
