"""Local-name normalisation: rules must not depend on what a local variable or parameter is called.

tables/locals.json freezes, per function of the pinned tree, the names of its parameters (by position) and of its locals
(in declaration order, with their types).  When facts are loaded, every function that is still identifiable (same mangled
name, or same qualified name when unique) gets its current locals aligned with the frozen ones -- parameters by position,
locals by sequence alignment on the names that did not change, then by type inside the changed stretches -- and every local
that was merely RENAMED is presented to the rules under its frozen name.  A consistent renaming of locals is behaviour
preserving, so this cannot hide a violation; a local that cannot be aligned keeps its current name (and the rules that
need it fall back to their role-based lookups or report analysis-broken).  The mapping applied is reported in evidence.

  python3 rules/localnames.py --generate     (re)freeze the names from the current tree -- together with the other tables,
                                              only after reading the diff
"""
import difflib
import json
import os
import sys

if __name__ == '__main__':
    sys.path.insert(0, os.path.dirname(os.path.dirname(os.path.abspath(__file__))))
    __package__ = 'rules'

VERIF = os.path.dirname(os.path.dirname(os.path.abspath(__file__)))
TABLE = os.path.join(VERIF, 'tables', 'locals.json')


def decls_of(f):
    """([param names], [(name, type, vid)] locals in declaration order)"""
    ps = [p.get('n') or '' for p in f.get('params') or []]
    ls, seen = [], set()
    for b in f.get('blocks') or []:
        for e in b['el']:
            if e.get('k') == 'DeclStmt':
                for d in e.get('decls') or []:
                    if d.get('dk') == 'Var' and d.get('n') and d.get('vid') is not None and d['vid'] not in seen:
                        seen.add(d['vid'])
                        ls.append((e.get('ln') or 0, e.get('col') or 0, len(ls), d['n'], d.get('t') or '', d['vid'], _shape(f, d.get('init'))))
    ls.sort()
    return ps, [(n, t, v, sh) for _, _, _, n, t, v, sh in ls]


def _shape(f, init):
    """a coarse signature of a local's initialiser (none / constant value / callee / kind), used to tell same-typed locals apart when
    their declarations were re-ordered as well as renamed"""
    if init is None:
        return '-'
    nodes = f.setdefault('_nodes_by_id', None)
    if nodes is None:
        nodes = {e['i']: e for b in f.get('blocks') or [] for e in b['el']}
        f['_nodes_by_id'] = nodes
    n = nodes.get(init) if isinstance(init, int) else init
    for _ in range(12):
        if n is None:
            return '?'
        if n.get('v') is not None:
            return 'k:%s' % n['v']
        if (n.get('k', '').endswith('CastExpr') or n.get('k') in ('ParenExpr', 'ExprWithCleanups', 'MaterializeTemporaryExpr', 'CXXBindTemporaryExpr')) and n.get('c'):
            c = n['c'][0]
            n = nodes.get(c) if isinstance(c, int) else c
            continue
        break
    k = n.get('k', '?')
    if k in ('CallExpr', 'CXXMemberCallExpr', 'CXXOperatorCallExpr', 'CXXConstructExpr'):
        fq = n.get('fq')
        if not fq and n.get('c'):
            c = n['c'][0]
            m = nodes.get(c) if isinstance(c, int) else c
            for _ in range(6):
                if m is not None and m.get('k', '').endswith('CastExpr') and m.get('c'):
                    c = m['c'][0]
                    m = nodes.get(c) if isinstance(c, int) else c
            fq = (m or {}).get('d') or '?'
        return 'c:' + str(fq).split('<')[0].split('::')[-1]
    return k


def generate(merged):
    out = {}
    for key, f in merged['functions'].items():
        if not f.get('blocks') or not f.get('file', '').startswith(('src/', 'include/')):
            continue
        ps, ls = decls_of(f)
        out[key] = {'q': f['q'], 'p': ps, 'l': [[n, t, sh] for n, t, _, sh in ls], 'sig': f.get('sig'), 'file': f.get('file')}
    return out


def _align(old, new):
    """old: [(name, type)], new: [(name, type, vid)] -> {vid: old name} for locals that were only renamed"""
    ren = {}
    on, nn = [o[0] for o in old], [n[0] for n in new]
    oset, nset = set(on), set(nn)
    sm = difflib.SequenceMatcher(a=on, b=nn, autojunk=False)
    for tag, i1, i2, j1, j2 in sm.get_opcodes():
        if tag != 'replace':
            continue
        os_, ns_ = old[i1:i2], new[j1:j2]
        nt0 = lambda t: ' '.join(w for w in t.replace('*', ' * ').replace('&', ' & ').split() if w != 'const')
        sig_o = [(nt0(o[1]), o[2] if len(o) > 2 else None) for o in os_]
        sig_n = [(nt0(n[1]), n[3] if len(n) > 3 else None) for n in ns_]
        if len(os_) == len(ns_) and None not in [x[1] for x in sig_o] and len(set(sig_o)) == len(sig_o) and sorted(sig_o) == sorted(sig_n) \
                and sig_o != sig_n:
            # same-typed locals re-ordered as well as renamed: type + initialiser shape identify each of them
            pairs = [(o, ns_[sig_n.index(so)]) for o, so in zip(os_, sig_o)]
        elif len(os_) == len(ns_) and all(nt0(o[1]) == nt0(n[1]) for o, n in zip(os_, ns_)):
            pairs = list(zip(os_, ns_))
        else:
            # unequal stretch: first the locals that type + initialiser shape identify, then in order within each type
            pairs, used, done = [], set(), set()
            for oi, (o, so) in enumerate(zip(os_, sig_o)):
                if so[1] is None or sig_o.count(so) != 1:
                    continue
                c = [k for k, sn in enumerate(sig_n) if sn == so]
                if len(c) == 1:
                    used.add(c[0])
                    done.add(oi)
                    pairs.append((o, ns_[c[0]]))
            for oi, o in enumerate(os_):
                if oi in done:
                    continue
                for k, n in enumerate(ns_):
                    if k not in used and nt0(n[1]) == nt0(o[1]):
                        used.add(k)
                        pairs.append((o, n))
                        break
        for o, n in pairs:
            if n[0] not in oset and o[0] != n[0] and (o[0] not in nset or on.count(o[0]) > nn.count(o[0])):
                ren[n[2]] = o[0]
    # a declaration that was renamed AND moved: a vanished old name and a brand-new name that are the only ones of their type
    nt = lambda t: ' '.join(w for w in t.replace('*', ' * ').split() if w != 'const')
    mapped_old = set(ren.values())
    lost = [o for o in old if o[0] not in nset and o[0] not in mapped_old]
    fresh = [n for n in new if n[0] not in oset and n[2] not in ren]
    for o in lost:
        c = [n for n in fresh if nt(n[1]) == nt(o[1])]
        if len(c) == 1 and sum(1 for o2 in lost if nt(o2[1]) == nt(o[1])) == 1:
            ren[c[0][2]] = o[0]
    return ren


def _canon_functions(merged, table):
    """a helper function (file-local or a class's own method) that was merely RENAMED -- the tabled name is gone, and exactly one new
    function with the same signature exists in the same file and the same enclosing scope -- is presented under its tabled name"""
    if merged.get('_fcanon'):
        return
    merged['_fcanon'] = True
    cur_q = {}
    for k, f in merged['functions'].items():
        cur_q.setdefault(f['q'], []).append(k)
    tab_q = {}
    for k, v in table.items():
        tab_q.setdefault(v['q'], []).append(k)
    gone = [q for q in tab_q if q not in cur_q and all(table[k].get('file') for k in tab_q[q])]
    new = [q for q in cur_q if q not in tab_q and all(merged['functions'][k].get('blocks') for k in cur_q[q])]
    if not gone or not new:
        return
    scope = lambda q: q.rsplit('::', 1)[0] if '::' in q else ''
    ren = {}
    for g in gone:
        sigs = sorted((table[k].get('sig'), table[k].get('file')) for k in tab_q[g])
        cands = [n for n in new if scope(n) == scope(g) and
                 sorted((merged['functions'][k].get('sig'), merged['functions'][k].get('file')) for k in cur_q[n]) == sigs]
        if len(cands) == 1 and sum(1 for g2 in gone if scope(g2) == scope(g) and
                                   sorted((table[k].get('sig'), table[k].get('file')) for k in tab_q[g2]) == sigs) == 1:
            ren[cands[0]] = g
    if not ren:
        return
    # member functions: the template-argument-carrying name (qt) follows the plain one
    def fix(name):
        if not isinstance(name, str):
            return name
        for a, b in ren.items():
            if name == a:
                return b
            if name.startswith(a) and name[len(a):len(a) + 1] in ('<', '('):
                return b + name[len(a):]
        return name

    def walk(x):
        if isinstance(x, dict):
            for key in ('fq', 'd', 'fn'):
                if key in x and x.get('vid') is None:
                    x[key] = fix(x[key])
            for y in x.values():
                if isinstance(y, (dict, list)):
                    walk(y)
        elif isinstance(x, list):
            for y in x:
                if isinstance(y, (dict, list)):
                    walk(y)
    newkeys = {}
    for k, f in list(merged['functions'].items()):
        walk(f.get('blocks') or [])
        if f['q'] in ren:
            old = ren[f['q']]
            f['qt'] = fix(f['qt'])
            f['q'] = old
            # present it under the tabled key as well, so that its locals can be aligned
            tk = [t for t in tab_q[old] if table[t].get('sig') == f.get('sig')]
            if len(tk) == 1 and tk[0] not in merged['functions']:
                newkeys[k] = tk[0]
    for k, nk in newkeys.items():
        f = merged['functions'].pop(k)
        f['key'] = nk
        merged['functions'][nk] = f
    # ... and the call sites name their callee by its (mangled) key: they follow the re-keyed definitions
    fmmap = {}
    for k, nk in newkeys.items():
        fmmap[k] = nk
        fmmap[k.split('@')[0]] = nk.split('@')[0]

    def walk_fm(x):
        if isinstance(x, dict):
            if x.get('fm') in fmmap:
                x['fm'] = fmmap[x['fm']]
            for y in x.values():
                if isinstance(y, (dict, list)):
                    walk_fm(y)
        elif isinstance(x, list):
            for y in x:
                if isinstance(y, (dict, list)):
                    walk_fm(y)
    if fmmap:
        for f in merged['functions'].values():
            walk_fm(f.get('blocks') or [])
    fbq = {}
    for k, f in merged['functions'].items():
        fbq.setdefault(f['q'], []).append(k)
    merged['fn_by_q'] = fbq
    merged.setdefault('_renamed', {}).update({'function ' + a: {a: b} for a, b in ren.items()})


def known_functions():
    """qualified names of every function of the pinned tree (all analysed configurations)"""
    if not os.path.exists(TABLE):
        return set()
    with open(TABLE) as fh:
        d = json.load(fh)
    return set(v['q'] for v in d['functions'].values()) | set(d.get('other_configurations', []))


def canon(merged, table=None):
    """rewrite renamed locals/parameters of merged facts to their frozen names (in place); returns {function: {current: frozen}}"""
    if table is None:
        if not os.path.exists(TABLE):
            return {}
        with open(TABLE) as fh:
            table = json.load(fh)['functions']
    _canon_functions(merged, table)
    by_q = {}
    for k, v in table.items():
        by_q.setdefault(v['q'], []).append(k)
    report = {}
    for key, f in merged['functions'].items():
        if f.get('_canon') or not f.get('blocks'):
            continue
        f['_canon'] = True
        ref = table.get(key)
        if ref is None:
            c = by_q.get(f['q'], [])
            cur_same_q = [k for k, g in merged['functions'].items() if g['q'] == f['q']]
            if len(c) == 1 and len(cur_same_q) == 1:
                ref = table[c[0]]
        if ref is None:
            continue
        ps, ls = decls_of(f)
        ren = {}
        params = f.get('params') or []
        if len(ref['p']) == len(params):
            pn = set(ref['p'])
            for old, p in zip(ref['p'], params):
                if old and p.get('n') and old != p['n'] and p['n'] not in pn:
                    ren[p['vid']] = old
        ren.update(_align([tuple(x) for x in ref['l']], ls))
        if not ren:
            continue
        names = {}

        def walk(x):
            if isinstance(x, dict):
                v = x.get('vid')
                if v is not None and v in ren:
                    if isinstance(x.get('d'), str):
                        parts = x['d'].split('::')
                        names[parts[-1]] = ren[v]
                        parts[-1] = ren[v]
                        x['d'] = '::'.join(parts)
                    if isinstance(x.get('n'), str) and x.get('k') is None:
                        names[x['n']] = ren[v]
                        x['n'] = ren[v]
                for y in x.values():
                    if isinstance(y, (dict, list)):
                        walk(y)
            elif isinstance(x, list):
                for y in x:
                    if isinstance(y, (dict, list)):
                        walk(y)
        walk(params)
        walk(f['blocks'])
        report[f['qt']] = names
    merged.setdefault('_renamed', {}).update(report)
    return report


if __name__ == '__main__':
    from rules import facts as F
    os.environ.pop('VERIF_ALPHA', None)
    m = F.extract_ast('Q0', use_cache=False, raw=True)
    t = generate(m)
    others = set()
    for cfg in ('tracing', 'assert', 'call', 'nofile'):
        mm = F.extract_ast(cfg, use_cache=False, raw=True)
        others |= {f['q'] for f in mm['functions'].values()}
    others -= {v['q'] for v in t.values()}
    # the call-threaded driver's handler functions are alternative definitions: they are in Q0 as well (both drivers are parsed)
    with open(TABLE, 'w') as fh:
        json.dump({'_comment': 'Names of parameters and locals on the pinned tree (see rules/localnames.py): used only to present a RENAMED local '
                               'under its old name; never a reason for a verdict.', 'functions': t}, fh, indent=0, sort_keys=True)
    print('wrote %s: %d functions' % (TABLE, len(t)))
