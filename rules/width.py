"""WIDTH: the fields that carry slot / character indices are never the target of an implicit narrowing conversion, and their
accessors hand them out unnarrowed.  A segment holds as many slots and characters as the text needs (counters are 32/64 bit):
an index field narrower than the value stored into it wraps silently once a segment is long enough."""
from .cfg import int_type
from .util import field_writes


def _narrowing(fn, rhs):
    """(from_type, to_type) when rhs is an implicit integral conversion of a non-constant to a narrower type"""
    r = fn.N(rhs)
    while r['k'] in ('ParenExpr', 'ExprWithCleanups') and r.get('c'):
        r = fn.N(r['c'][0])
    if r['k'] == 'ImplicitCastExpr' and r.get('ck') == 'IntegralCast' and r.get('c'):
        src = fn.N(r['c'][0])
        a, b = int_type(src.get('t')), int_type(r.get('t'))
        if a and b and b[0] < a[0] and fn.strip_all_casts(src).get('v') is None:
            return src.get('t'), r.get('t')
    return None


def field_of_setter(fx, q):
    """the field a one-parameter setter stores its parameter into (`void index(uint32 v) { m_index = v; }`): the accessors are the
    stable names, the private fields behind them may be renamed"""
    for fn in fx.fns_named(q):
        ps = fn.f.get('params') or []
        if len(ps) != 1 or not fn.blocks:
            continue
        for _, e in fn.elements():
            if e['k'] == 'BinaryOperator' and e.get('op') == '=':
                l = fn.strip_all_casts(e['c'][0])
                if l['k'] == 'MemberExpr' and any(x['k'] == 'DeclRefExpr' and x.get('vid') == ps[0]['vid'] for x in fn.walk(e['c'][1])):
                    return l.get('d')
    return None


def no_narrow(run, fx, RULE, fields, min_sites=1):
    fw = field_writes(fx)
    for f in fields:
        if isinstance(f, tuple):        # (label, setter): the field is whatever the setter stores into
            label, setter = f
            f = field_of_setter(fx, setter)
            if f is None:
                run.broken(RULE, 'index field %s' % label, 'the setter %s no longer stores its parameter into a field' % setter, '')
                continue
        short = f.split('::', 1)[1]
        sites = [(fn, e, kind) for fn, e, kind in fw.get(f, []) if kind in ('assign', 'init', '=') or True]
        n = 0
        bad = None
        for fn, e, kind in sites:
            rhs = None
            if e['k'] == 'BinaryOperator' and e.get('op') == '=':
                rhs = e['c'][1]
            elif e['k'] == 'Init' and e.get('c'):
                rhs = e['c'][0]
            if rhs is None:
                continue
            n += 1
            nr = _narrowing(fn, rhs)
            if nr and bad is None:
                bad = (fn, e, nr)
        # getters: `return <field>` through a narrowing conversion
        for fn in fx.all_fns():
            if not fn.blocks or not fn.file.startswith(('src/inc/', 'src/gr_')):
                continue
            for _, e in fn.elements():
                if e['k'] == 'ReturnStmt' and e.get('c'):
                    v = fn.strip_all_casts(e['c'][0])
                    if v['k'] == 'MemberExpr' and v.get('d') == f:
                        n += 1
                        nr = _narrowing(fn, e['c'][0])
                        if nr and bad is None:
                            bad = (fn, e, nr)
        inst = 'index field %s' % short
        if n < min_sites:
            run.broken(RULE, inst, 'no store into / accessor of %s found' % f, '')
        elif bad:
            fn, e, nr = bad
            run.violated(RULE, inst, fn.loc(e), '%s: a value of type %s is implicitly narrowed to %s on its way %s %s: slot and character indices above the narrower range '
                         'wrap, so two slots of a long segment carry the same index / point at the wrong character' %
                         (fn.q, nr[0], nr[1], 'out of' if e['k'] == 'ReturnStmt' else 'into', short))
        else:
            run.held(RULE, inst, '', '%d stores / accessor returns, none through an implicit narrowing conversion' % n)
