"""C01 -- font loading is total and memory-safe on arbitrary table bytes.

Absence of out-of-bounds access in the parsers IN GENERAL is NOT decided (the parsers are safe partly by arithmetic no
check states).  Decided -- necessary conditions only:
  VALIDATOR    the inventory of load-time rejections (tables/validators.json, 284 passing-direction facts over 53 parser
               functions, confirmed on the pinned tree): each must still be enforced with at least the tabled strength
  OPERANDCHECK per opcode, the operand validations fetch_opcode performs before emitting it (tables/opcode_checks.json);
               the rows feeding unchecked run-time sinks (class ids, user-attribute ids, slot references) are load-bearing
  ERRDISC      no failed check is silently lost: the result of every Error::test and of every load-status call is
               consumed (branched on / returned / tested through the Error object) before it can be overwritten
  NESTGUARD    decoder::load <-> emit_opcode recursion is cut at depth 2 by the nested-context-item rejection
  CONST        NUMCONTEXTS and the slot-reference rejection, limits::attrid extent == gr_slatMax, gralloc checks the size
               multiplication before malloc
  OWNFIELD / OWNLOCAL / TABLETS  (shared with C16) nothing stays allocated / borrowed on the failed-load exits
  VMSTACK etc. are C02/C07's.
"""
from . import dom
from . import vmrules as R
from . import validators, opchecks, c16
from .facts import AnalysisBroken
from .util import callers_of, calls_in, find_decl, CALL_KINDS

LEVEL = 'other'
EXPLANATION = ('A frozen, hand-confirmed inventory of every load-time rejection in the 44 parser functions (each as the fact the rest of '
               'the parser may rely on) re-evaluated with strength comparison on the current CFGs; the per-opcode operand validations of '
               'the bytecode loader; a def-use rule that no failure result is dropped; the recursion guard of the decoder; constant '
               'coherence; and the ownership rules for the failed-load exits.  This decides that no tabled check was removed or weakened '
               'and that failures propagate -- it does NOT decide that the checks are sufficient for memory safety on arbitrary bytes.')
FLOORS = {'VALIDATOR': 270, 'OPERANDCHECK': 60, 'ERRDISC': 110, 'NESTGUARD': 3, 'CONST': 4, 'OWNFIELD': 40, 'OWNLOCAL': 12, 'TABLETS': 8, 'LOADERSIB': 2}

STATUS_FUNCS = {
    '(anonymous namespace)::load_face', 'graphite2::Face::readGlyphs', 'graphite2::Face::readFeatures', 'graphite2::Face::readGraphite',
    'graphite2::Silf::readGraphite', 'graphite2::Silf::readClassMap', 'graphite2::Silf::readClassOffsets', 'graphite2::Pass::readPass',
    'graphite2::Pass::readRules', 'graphite2::Pass::readStates', 'graphite2::Pass::readRanges', 'graphite2::FeatureMap::readFeats',
    'graphite2::SillMap::readFace', 'graphite2::SillMap::readSill', 'graphite2::vm::Machine::Code::decoder::load',
    'graphite2::vm::Machine::Code::decoder::emit_opcode', 'graphite2::vm::Machine::Code::decoder::validate_opcode', 'lz4::decompress',
    'graphite2::Segment::initCollisions',
}
# results that are legitimately not consumed, each with its reason
ERRDISC_EXCEPTIONS = {
    ('graphite2::Face::Table::Table', 'graphite2::Face::Table::decompress'):
        'failure is encoded as _p == 0 (decompress nulls the buffer on every error path: C14 DECOMPRESS / C16 TABLETS); users test `if (!table)`',
}


def _cond_ids(fn):
    if '_cond_ids' in fn.__dict__:
        return fn.__dict__['_cond_ids']
    ids = set()

    def walk(x):
        if isinstance(x, int):
            ids.add(x)
        elif isinstance(x, dict):
            for c in x.get('c') or []:
                walk(c)
    for b in fn.f.get('blocks', []):
        t = b.get('term') or {}
        if 'cond' in t:
            ids.add(t['cond'])
        if 'condx' in t:
            walk(t['condx'])
    fn.__dict__['_cond_ids'] = ids
    return ids


def _consumed(fn, e):
    """is the value of call element e used (branch condition, return value, argument, initialiser, operand)?"""
    if fn.parents().get(e['i']):
        return True
    cur = e['i']
    return cur in _cond_ids(fn)


def outparams(run, fx, rule):
    n = 0
    # the sfnt helpers that answer through out-parameters: when they say no, the out-parameters were never written
    outq = sorted({f.q for f in fx.all_fns() if f.q.startswith('graphite2::TtfUtil::') and (f.f.get('ret') or '') == 'bool'
                   and any((p_.get('t') or '').rstrip().endswith('&') and 'const' not in (p_.get('t') or '') for p_ in f.f.get('params') or [])})
    for q in outq:
        for fn, e in callers_of(fx, q):
            if fn.q.startswith('graphite2::TtfUtil::'):
                continue
            n += 1
            inst = 'answer of %s in %s@%s' % (q.split('::')[-1], fn.q.split('::')[-1], e['ln'])
            if _consumed(fn, e):
                run.held(rule, inst, fn.loc(e), 'the answer decides whether the out-parameters are used', False)
            else:
                run.violated(rule, inst, fn.loc(e), '%s answers through out-parameters and says whether it wrote them; %s ignores the answer and uses them anyway: for a table the helper refuses '
                             '(a short hmtx, a glyph beyond it) the values are whatever the stack held -- the glyph\'s metrics then depend on what ran before, and are frozen in the glyph cache' % (q.split('::')[-1], fn.q))
    return n


def errdisc(run, fx):
    n = 0
    for fn, e in callers_of(fx, 'graphite2::Error::test'):
        n += 1
        inst = 'e.test @%s:%s:%s' % (fn.q.split('::')[-1], e['ln'], e['col'])
        if _consumed(fn, e):
            # the value feeds a condition: its true direction must reach a failure exit without another test in between
            run.held('ERRDISC', inst, fn.loc(e), 'result used (%s)' % (fn.nodes[fn.parents()[e['i']][0]]['k'] if fn.parents().get(e['i']) else 'branch condition'))
            continue
        # discarded: the Error object must be examined before the next test() overwrites it or the function returns
        obj = fn.render(fn.N(e['obj'])) if e.get('obj') is not None else 'e'
        b0 = fn.block_of[e['i']]
        uses = set()
        for _, u in fn.elements():
            if u['k'] in CALL_KINDS and (u.get('fq') or '').endswith('Error::operator bool') and u.get('obj') is not None and fn.render(fn.N(u['obj'])) == obj:
                uses.add(fn.block_of[u['i']])
            if u['k'] == 'ReturnStmt' and u.get('c') and fn.render(fn.strip_all_casts(u['c'][0])) == obj:
                uses.add(fn.block_of[u['i']])
        overw = {fn.block_of[x['i']] for f2, x in callers_of(fx, 'graphite2::Error::test') if f2 is fn and x is not e and x['i'] != e['i']}
        # same block: a later use in the block settles it
        later_same = any(fn.block_of[u['i']] == b0 and fn.pos_of[u['i']] > fn.pos_of[e['i']] and
                         ((u['k'] in CALL_KINDS and (u.get('fq') or '').endswith('Error::operator bool')) or u['k'] == 'ReturnStmt') for _, u in fn.elements())
        lost = False
        if not later_same:
            seen, st = set(), list(fn.succs(b0))
            while st:
                b = st.pop()
                if b in seen or b in uses:
                    continue
                seen.add(b)
                if b in overw or b == fn.exit:
                    lost = True
                    break
                st.extend(fn.succs(b))
        if lost:
            run.violated('ERRDISC', inst, fn.loc(e), 'the result of this failed-check test is neither branched on nor is `%s` examined before the next test() overwrites it / the '
                         'function returns: a malformed table is accepted silently' % obj)
        else:
            run.held('ERRDISC', inst, fn.loc(e), 'result discarded but `%s` is tested on every path before it can be overwritten' % obj)
    for q in sorted(STATUS_FUNCS):
        for fn, e in callers_of(fx, q):
            n += 1
            inst = 'status of %s in %s@%s' % (q.split('::')[-1], fn.q.split('::')[-1], e['ln'])
            if _consumed(fn, e):
                run.held('ERRDISC', inst, fn.loc(e), 'load status consumed', False)
            elif (fn.q, q) in ERRDISC_EXCEPTIONS:
                run.held('ERRDISC', inst, fn.loc(e), 'tabled exception: %s' % ERRDISC_EXCEPTIONS[(fn.q, q)], False)
            else:
                run.violated('ERRDISC', inst, fn.loc(e), 'the load status returned by %s is ignored in %s: loading continues after a failed step' % (q, fn.q))
    n += outparams(run, fx, 'ERRDISC')
    for fn, e in callers_of(fx, 'graphite2::Face::Table::decompress'):
        n += 1
        inst = 'status of decompress in %s@%s' % (fn.q.split('::')[-1], e['ln'])
        if _consumed(fn, e) or (fn.q, 'graphite2::Face::Table::decompress') in ERRDISC_EXCEPTIONS:
            run.held('ERRDISC', inst, fn.loc(e), ERRDISC_EXCEPTIONS.get((fn.q, 'graphite2::Face::Table::decompress'), 'consumed'), False)
        else:
            run.violated('ERRDISC', inst, fn.loc(e), 'the Error returned by Face::Table::decompress is dropped in %s' % fn.q)
    return n


def nestguard(run, vm):
    fx = vm.fx
    eo = fx.one('graphite2::vm::Machine::Code::decoder::emit_opcode')
    rec = calls_in(eo, 'graphite2::vm::Machine::Code::decoder::load')
    if len(rec) != 1:
        run.broken('NESTGUARD', 'recursive load', 'expected one recursive load() call in emit_opcode, found %d' % len(rec), eo.where())
    else:
        e = rec[0]
        fs = [f[:3] for f in dom.facts_at(eo, e['i'])]
        ctx = vm.opnum['CNTXT_ITEM']
        under = any(f[0] == 'opc' and f[1] == '==' and f[2] == str(ctx) for f in fs)
        setflag = [x for _, x in eo.elements() if x['k'] == 'BinaryOperator' and x['op'] == '=' and eo.render(eo.N(x['c'][0])) == 'this->_in_ctxt_item'
                   and eo.strip_all_casts(x['c'][1]).get('v') == 1]
        okset = setflag and eo.block_of[setflag[0]['i']] in eo.dominators()[eo.block_of[e['i']]]
        if under and okset:
            run.held('NESTGUARD', 'emit_opcode recursion', eo.loc(e), 'load() re-entered only for CNTXT_ITEM, after _in_ctxt_item = true')
        else:
            run.violated('NESTGUARD', 'emit_opcode recursion', eo.loc(e), 'the decoder re-enters load() without marking that it is inside a context item: nesting is unbounded '
                         '(CNTXT_ITEM only %s, flag set first %s)' % (under, bool(okset)))
    # the recursion decodes a SUB-range (the body of one context item): the operand bound fetch_opcode tests is the member _max.bytecode, so
    # load() must set it from its own end parameter before the first opcode is fetched -- otherwise the operands of the last instruction
    # of an item are taken from behind the item and decoded a second time as instructions (the size estimate no longer holds)
    ld = fx.one('graphite2::vm::Machine::Code::decoder::load')
    endp = [p_ for p_ in ld.f['params']][-1]
    fetches = calls_in(ld, 'graphite2::vm::Machine::Code::decoder::fetch_opcode')
    reads_member = any(x['k'] == 'MemberExpr' and (x.get('d') or '').endswith('limits::bytecode') for f_ in (fx.one('graphite2::vm::Machine::Code::decoder::fetch_opcode'),
                       fx.one('graphite2::vm::Machine::Code::decoder::validate_opcode')) for _, x in f_.elements())
    sets = [x for _, x in ld.elements() if x['k'] == 'BinaryOperator' and x['op'] == '=' and (ld.strip(x['c'][0]).get('d') or '').endswith('limits::bytecode')
            and ld.strip_all_casts(ld.N(x['c'][1])).get('vid') == endp['vid']]
    inst = 'load() bounds the operands by the end of the range it decodes'
    if not fetches or not reads_member:
        run.broken('NESTGUARD', inst, 'decoder::load no longer calls fetch_opcode, or the operand bound is no longer the member _max.bytecode', ld.where())
    else:
        doms_ = ld.dominators()
        okl = [x for x in sets if all(ld.block_of[x['i']] in doms_[ld.block_of[f_['i']]] for f_ in fetches)]
        if okl:
            run.held('NESTGUARD', inst, ld.loc(okl[0]), '_max.bytecode = %s dominates every fetch_opcode call' % endp['n'])
        else:
            run.violated('NESTGUARD', inst, ld.where(), 'decoder::load(bc, %s) decodes the range up to `%s`, but fetch_opcode / validate_opcode test operands against the member _max.bytecode, which load() '
                         'no longer sets from `%s` before the first fetch: inside a context item (emit_opcode re-enters load() for its body) the bound is still the end of the whole program, so the '
                         'operands of an item\'s last instruction are read from behind the item and then decoded again as instructions -- more output than the size estimate allows' % (endp['n'], endp['n'], endp['n']))
    fo = fx.one('graphite2::vm::Machine::Code::decoder::fetch_opcode')
    fl = [e for e in calls_in(fo, 'graphite2::vm::Machine::Code::decoder::failure') if (fo.strip_all_casts(e['args'][0]).get('d') or '').endswith('nested_context_item')]
    ok = fl and any(f[:3] == ('this->_in_ctxt_item', '!=', '0') for f in dom.facts_at(fo, fl[0]['i']))
    if ok:
        run.held('NESTGUARD', 'nested context item rejected', fo.loc(fl[0]), 'failure(nested_context_item) under _in_ctxt_item')
    else:
        run.violated('NESTGUARD', 'nested context item rejected', fo.where(), 'a CNTXT_ITEM inside a context item is no longer rejected: decoder::load <-> emit_opcode recursion depth '
                     'is bounded only by the bytecode length (stack exhaustion on crafted fonts)')
    # failure() nulls the code so that fetch_opcode's final `return bool(_code) ? opc : MAX_OPCODE` reports it
    cf = [f for f in fx.fns_named('graphite2::vm::Machine::Code::failure')]
    okf = False
    for f in cf:
        if calls_in(f, 'graphite2::vm::Machine::Code::release_buffers') and any(x['k'] == 'BinaryOperator' and x['op'] == '=' and 'this->_status' in f.render(x) for _, x in f.elements()):
            okf = True
    rb = fx.one('graphite2::vm::Machine::Code::release_buffers')
    nul = any(x['k'] == 'BinaryOperator' and x['op'] == '=' and rb.render(rb.N(x['c'][0])) == 'this->_code' and rb.strip_all_casts(x['c'][1]).get('v') == 0 for _, x in rb.elements())
    if okf and nul:
        run.held('NESTGUARD', 'failure() invalidates the code', rb.where(), 'Code::failure -> release_buffers -> _code = 0, so bool(_code) is false after any failure')
    else:
        run.violated('NESTGUARD', 'failure() invalidates the code', rb.where(), 'Code::failure no longer releases and nulls the code buffer: fetch_opcode\'s `bool(_code)` cannot see the failure')


def const_(run, vm):
    fx = vm.fx
    nc = None
    for v in fx.raw['vars']:
        if v['q'].endswith('decoder::NUMCONTEXTS'):
            nc = R._const_of(v)
    rec = fx.record('graphite2::vm::Machine::Code::decoder')
    ctx = [f for f in rec['fields'] if f['n'] == '_contexts']
    if nc is not None and ctx and ctx[0].get('extent') == nc:
        run.held('CONST', '_contexts extent', rec['file'], '_contexts[%d] == NUMCONTEXTS' % nc, False)
    else:
        run.violated('CONST', '_contexts extent', rec['file'], 'decoder::_contexts has %s entries, NUMCONTEXTS is %s' % (ctx[0].get('extent') if ctx else None, nc))
    tc = fx.one('graphite2::vm::Machine::Code::decoder::test_context')
    obs = validators.obligations(tc)
    ok = any(o[0] == 'this->_slotref' and o[1] == '<' and ('NUMCONTEXTS - 1' in o[2] or (nc is not None and o[2] == str(nc - 1))) for o in obs)
    if ok:
        run.held('CONST', 'slot reference < NUMCONTEXTS-1', tc.where(), 'test_context rejects _slotref >= NUMCONTEXTS - 1 (analyse_opcode writes _contexts[_slotref + 1])')
    else:
        run.violated('CONST', 'slot reference < NUMCONTEXTS-1', tc.where(), 'test_context no longer bounds _slotref by NUMCONTEXTS - 1: analyse_opcode indexes _contexts[_slotref] beyond its %s entries'
                     % nc, {'facts': [o[:3] for o in obs]})
    lim = fx.record('graphite2::vm::Machine::Code::decoder::limits')
    at = [f for f in lim['fields'] if f['n'] == 'attrid']
    smax = fx.enum_value('gr_slatMax')
    if at and at[0].get('extent') == smax:
        run.held('CONST', 'limits::attrid extent', lim['file'], 'attrid[%d] == gr_slatMax' % smax, False)
    else:
        run.violated('CONST', 'limits::attrid extent', lim['file'], 'decoder::limits::attrid has %s entries but is indexed by attribute codes < gr_slatMax (%d)' % (at[0].get('extent') if at else None, smax))
    ga = [f for f in fx.all_fns() if f.q == 'graphite2::gralloc']
    okg = bool(ga)
    for f in ga:
        m = calls_in(f, 'malloc')
        cm = calls_in(f, 'graphite2::checked_mul')
        if not m or not cm or f.block_of[cm[0]['i']] not in f.dominators()[f.block_of[m[0]['i']]]:
            okg = False
    if okg:
        run.held('CONST', 'gralloc overflow test', ga[0].where(), 'checked_mul(n, sizeof(T)) dominates malloc in all %d instantiations' % len(ga))
    else:
        run.violated('CONST', 'gralloc overflow test', ga[0].where() if ga else '', 'gralloc<T> no longer checks n * sizeof(T) for overflow before malloc')


from collections import Counter


def namebound(run, fx):
    """NameTable::getName reads the string of the chosen record at m_nameData + offset, length bytes, both taken from the font at
    query time: the read pointer is formed only under a dominating test  offset + length <= m_nameDataLength  on the full-width
    sum.  Compared as linear forms (rules/linear.py), in which a sum truncated to a narrower type is a different, opaque value."""
    from . import linear
    fn = fx.one('graphite2::NameTable::getName')
    n = 0
    for _, e in fn.elements():
        if e['k'] != 'BinaryOperator' or e.get('op') != '+' or '*' not in (e.get('t') or ''):
            continue
        terms, c0 = linear.lin(fn, e)
        base = [t for t in terms if t.endswith('m_nameData')]
        if len(base) != 1 or terms[base[0]] != 1:
            continue
        off = {t: c for t, c in terms.items() if t != base[0]}
        if not off:
            continue
        n += 1
        inst = 'name string read pointer @%s' % e.get('ln')
        good, seen, scaled = None, [], None
        for cond, pol in dom.edge_guards(fn, fn.block_of[e['i']]):
            for at, p in dom.atoms(fn, cond, pol):
                for t, c in linear.lower_bounds(fn, at, p):
                    lim = [k_ for k_ in t if k_.endswith('m_nameDataLength')]
                    if len(lim) == 1 and t[lim[0]] == 1:
                        seen.append(fn.render(fn.strip(at)))
                        rest = {k_: c_ for k_, c_ in t.items() if k_ != lim[0]}
                        extra = {k_: c_ for k_, c_ in rest.items() if k_ not in off}
                        if all(rest.get(k_) == -c_ for k_, c_ in off.items()) and len(extra) == 1 and list(extra.values()) == [-1] and c <= c0 * -1 + 0:
                            xt = list(extra)[0]
                            if '>>' in xt or '/' in xt:
                                # the term next to the offset is the record's length SCALED DOWN (units, not bytes): the copy that follows reads twice as far
                                scaled = (fn.render(fn.strip(at)), xt)
                                continue
                            good = (fn.render(fn.strip(at)), list(extra)[0])
        if scaled and not good:
            run.violated('VALIDATOR', inst, fn.loc(e), 'NameTable::getName tests `%s`, where `%s` is the record length already divided down to UTF-16 units, against the BYTE length of the string '
                         'storage: a record may stick out of the name table by half its length and is still accepted -- the copy loop reads past the table' % scaled)
            continue
        if good:
            run.held('VALIDATOR', inst, fn.loc(e), 'dominated by `%s`: offset + %s <= m_nameDataLength on the untruncated sum' % good)
        else:
            run.violated('VALIDATOR', inst, fn.loc(e), 'NameTable::getName forms the read pointer m_nameData + (%s) without a dominating test that this offset plus the string '
                         'length stays within m_nameDataLength (tests of m_nameDataLength seen: %s; a sum held in a 16-bit local wraps and is not that test): a name record '
                         'with offset + length beyond the table is read out of bounds' % (' + '.join(sorted(off)), seen or 'none'))
    if n < 1:
        run.broken('VALIDATOR', 'name string read pointer', 'no m_nameData + offset pointer found in NameTable::getName', fn.where())
    # ... and m_nameDataLength, the bound of that test, is what is left of the table behind the start of the string storage: wherever a
    # constructor sets m_nameData = table + off it sets m_nameDataLength to (a truncation of) length - off, as linear forms
    inst = 'the string storage ends where the name table ends'
    found = 0
    for ct in fx.fns_named('graphite2::NameTable::NameTable'):
        if ct.f.get('implicit'):
            continue
        params = {p_.get('n') for p_ in (ct.f.get('params') or [])}
        data_st = [e for _, e in ct.elements() if e['k'] == 'BinaryOperator' and e.get('op') == '=' and ct.render(ct.N(e['c'][0])).endswith('m_nameData')]
        len_st = [e for _, e in ct.elements() if e['k'] == 'BinaryOperator' and e.get('op') == '=' and ct.render(ct.N(e['c'][0])).endswith('m_nameDataLength')]
        if not data_st:
            continue
        if not len_st:
            run.violated('VALIDATOR', inst, ct.where(), 'NameTable::NameTable sets m_nameData but never m_nameDataLength')
            found += 1
            continue
        for ds in data_st:
            t_, c_ = linear.lin(ct, ct.strip_all_casts(ct.N(ds['c'][1])), through_unsigned=True)
            bases = set()
            for _, e2 in ct.elements():
                if e2['k'] == 'BinaryOperator' and e2.get('op') == '=' and ct.render(ct.N(e2['c'][0])).endswith('m_table'):
                    bases |= set(linear.lin(ct, ct.strip_all_casts(ct.N(e2['c'][1])), through_unsigned=True)[0])
            offs = {k_: v_ for k_, v_ in t_.items() if k_ not in bases and '*' not in k_ and not k_.endswith(('pdata', 'data', 'm_table'))}
            ptrs = {k_: v_ for k_, v_ in t_.items() if k_ not in offs}
            if len(ptrs) != 1 or not offs:
                continue
            for ls in len_st:
                found += 1
                inner = ct.strip_all_casts(ct.N(ls['c'][1]))
                lt, lc = linear.lin(ct, inner, through_unsigned=True)
                rest = Counter(lt)
                for k_, v_ in offs.items():
                    rest[k_] += v_
                rest = {k_: v_ for k_, v_ in rest.items() if v_}
                total = lc + c_
                if len(rest) == 1 and list(rest.values()) == [1] and list(rest)[0].split(':')[0] in params and total <= 0:
                    run.held('VALIDATOR', inst, ct.loc(ls), 'm_nameData = table + (%s), m_nameDataLength = %s' % (' + '.join(sorted(offs)), ct.render(inner)))
                else:
                    run.violated('VALIDATOR', inst, ct.loc(ls), 'NameTable::NameTable puts the string storage at table + (%s) but sets m_nameDataLength = %s, which is not the table length minus that offset: '
                                 'getName\'s test offset + length <= m_nameDataLength then accepts records that reach past the end of the name table, and the label is built from bytes behind it' %
                                 (' + '.join(sorted(offs)), ct.render(ct.N(ls['c'][1]))))
    if not found:
        run.broken('VALIDATOR', inst, 'no constructor of NameTable sets m_nameData = table + offset and m_nameDataLength', '')


def platrange_exec(run, fx, rule='VALIDATOR'):
    """NameTable::getName walks name_record[m_platformOffset .. m_platformLastRecord] inclusive; the constructor only vouches for
    `count` records.  NameTable::setPlatformEncoding is interpreted (rules/ordint.py; be::swap as the identity on abstract cells) on
    every name table of 1..3 records whose (platform, encoding) pairs are drawn from {(3,1), (1,0)}, asked for (3,1): afterwards both
    indices are below count -- with no matching record included."""
    import itertools
    from . import ordint as O
    fn = fx.one('graphite2::NameTable::setPlatformEncoding')
    PN = 'graphite2::NameTable::'
    PF, PR = 'graphite2::TtfUtil::Sfnt::FontNames::', 'graphite2::TtfUtil::Sfnt::NameRecord::'
    nrec = fx.record('graphite2::NameTable')
    inst = 'the record range getName walks lies inside the record array (setPlatformEncoding interpreted)'
    cases = 0
    try:
        for count in (1, 2, 3):
            for kinds in itertools.product(((3, 1), (1, 0)), repeat=count):
                recs = O.Vec([O.Rec({PR + 'platform_id': p_, PR + 'platform_specific_id': e_, PR + 'language_id': 0x409, PR + 'name_id': 256 + k_, PR + 'length': 2, PR + 'offset': 0})
                              for k_, (p_, e_) in enumerate(kinds)])
                tab = O.Rec({PF + 'format': 0, PF + 'count': count, PF + 'string_offset': 6 + 12 * count, PF + 'name_record': O.It(recs, 0)})
                nt = O.Rec()
                for f in nrec['fields']:
                    nt[PN + f['n']] = O.Ptr(None) if f.get('ptr') else 0
                nt[PN + 'm_table'] = O.Ptr(tab)
                nt[PN + 'm_nameData'] = O.It(O.Vec([0] * 8), 0)
                it = O.Interp(fx)
                it.MAX_STEPS = 4000
                cases += 1
                desc = 'a name table whose %d record(s) are for (platform, encoding) %s, asked for (3, 1)' % (count, list(kinds))
                try:
                    it.call(fn, nt, [3, 1])
                except O.Violation as v:
                    run.violated(rule, inst, fn.where(), '%s: %s (%s)' % (desc, v.what, v.loc))
                    return
                lo, hi = nt[PN + 'm_platformOffset'], nt[PN + 'm_platformLastRecord']
                if not (isinstance(lo, int) and isinstance(hi, int)):
                    raise AnalysisBroken('m_platformOffset / m_platformLastRecord are %r / %r' % (lo, hi))
                if lo >= count or hi >= count:
                    run.violated(rule, inst, fn.where(), '%s: afterwards m_platformOffset = %d and m_platformLastRecord = %d: NameTable::getName compares name_record[%d], which lies behind the %d '
                                 'record(s) the table holds (gr_fref_label on a face that loaded without complaint)' % (desc, lo, hi, max(lo, hi), count))
                    return
    except AnalysisBroken as ex:
        run.broken(rule, inst, str(ex), fn.where())
        return
    run.held(rule, inst, fn.where(), '%d tables' % cases)


def checkafteruse(run, fx):
    """contradiction rule (Engler et al.): a parser that rejects on a test of an index or count has no business using that index before
    the test.  In every function of the validator inventory, no table element `base[.. v ..]` is read at a point that dominates a
    rejecting branch (one arm returns false / 0 / null at once) whose condition compares v itself (v alone or in plain arithmetic, not
    inside another subscript or call), with v not redefined in between.  (`nAdvWid = phmtx[cLongHorMetrics-1]...` moved above the
    `cLongHorMetrics == 0` guard reads in front of the hmtx table.)"""
    import json, os, re
    from .util import reaches_avoiding
    inv = json.load(open(os.path.join(os.path.dirname(os.path.dirname(os.path.abspath(__file__))), 'tables', 'validators.json')))
    fnset = sorted({k.split(' | ')[0] for k in inv['functions']})
    nfn, ntests, bad = 0, 0, []
    for q in fnset:
        for fn in fx.fns_named(q):
            nfn += 1
            doms = fn.dominators()
            rej = set()
            for b in fn.blocks:
                for e in fn.blocks[b]['el']:
                    if e['k'] == 'ReturnStmt' and e.get('c') and fn.strip_all_casts(fn.N(e['c'][0])).get('v') in (0, False):
                        rej.add(b)
            uses = [(b, e, {x['vid'] for x in fn.walk(e['c'][1]) if x['k'] == 'DeclRefExpr' and x.get('vid') is not None})
                    for b, e in fn.elements() if e['k'] == 'ArraySubscriptExpr']
            for b in fn.blocks:
                t = fn.blocks[b].get('term') or {}
                if t.get('cond') is None or not any(s_ in rej for s_ in fn.succs(b) if s_ is not None):
                    continue
                names = {fn.render(x): x['vid'] for x in fn.walk(t['cond']) if x['k'] == 'DeclRefExpr' and x.get('vid') is not None}
                cv = set()
                for node, _pol in dom.atoms(fn, t['cond'], True):
                    if node.get('k') != 'BinaryOperator' or node.get('op') not in ('==', '!=', '<', '>', '<=', '>='):
                        continue
                    for c_ in node['c']:
                        side = fn.render(fn.strip_all_casts(fn.N(c_)))
                        if re.fullmatch(r'[\w\s+\-*()]+', side):
                            cv |= {vid for nm, vid in names.items() if re.search(r'\b%s\b' % re.escape(nm), side)}
                if not cv:
                    continue
                ntests += 1
                for ub, ue, uv in uses:
                    if not (cv & uv):
                        continue
                    before = (ub == b and fn.pos_of[ue['i']] < fn.pos_of.get(t['cond'], 10 ** 9)) or (ub != b and ub in doms[b])
                    if not before:
                        continue
                    vids = cv & uv
                    redefs = [x for _, x in fn.elements() if x['k'] in ('BinaryOperator', 'CompoundAssignOperator', 'UnaryOperator') and x.get('op') in ('=', '+=', '-=', 'pre++', 'post++', 'pre--', 'post--')
                              and fn.strip_all_casts(fn.N(x['c'][0])).get('vid') in vids]
                    cond_el = fn.N(t['cond'])
                    if redefs and not reaches_avoiding(fn, ue, cond_el, avoid=redefs):
                        continue
                    bad.append((fn, ue, fn.render(ue)[:60], fn.render(cond_el)[:80]))
    inst = 'no table element is read through an index before the test that rejects on it'
    if nfn < 40 or ntests < 30:
        run.broken('VALIDATOR', inst, 'only %d inventory functions / %d rejecting index tests found' % (nfn, ntests))
    elif bad:
        fn, ue, u, c = bad[0]
        run.violated('VALIDATOR', inst, fn.loc(ue), '%s reads `%s` and only afterwards rejects on `%s`: for the values the test exists to reject, the read is outside the table' % (fn.q, u, c))
    else:
        run.held('VALIDATOR', inst, '', '%d rejecting tests of an index or count in %d parser functions: no read through the tested variable dominates its test' % (ntests, nfn))


def extentfirst(run, fx):
    """the pass is delimited before anything decodes it: in Pass::readPass every rejection that compares against the end of the pass
    dominates every consumer of the pass bytes -- the Machine::Code constructor (the bytecode decoder walks to the end pointer it is
    given) and readRanges / readRules / readStates.  A decoder started before the last extent test runs over offsets no test has yet
    compared with the end of the pass (and of the Silf table)."""
    fn = fx.one('graphite2::Pass::readPass')
    doms = fn.dominators()
    tests = [e for e in calls_in(fn, 'graphite2::Error::test') if 'pass_end' in fn.render(e)]
    cons = [e for _, e in fn.elements() if e['k'] in ('CallExpr', 'CXXMemberCallExpr', 'CXXConstructExpr', 'CXXTemporaryObjectExpr')
            and any(k in (e.get('fq') or '') for k in ('Machine::Code::Code', 'Pass::readRules', 'Pass::readStates', 'Pass::readRanges')) and not e.get('copyctor') and not e.get('movector')]
    cons = [e for e in cons if (e.get('args') or e.get('c'))]
    inst = 'every extent test of readPass precedes every decoder'
    if len(tests) < 5 or len(cons) < 4:
        run.broken('VALIDATOR', inst, 'expected >= 5 tests against pass_end and the 4 consumers, found %d / %d' % (len(tests), len(cons)), fn.where())
        return
    bad = []
    for c in cons:
        for t in tests:
            bt, bc = fn.block_of[t['i']], fn.block_of[c['i']]
            if not ((bt == bc and fn.pos_of[t['i']] < fn.pos_of[c['i']]) or (bt != bc and bt in doms[bc])):
                bad.append((c, t))
    if bad:
        c, t = bad[0]
        run.violated('VALIDATOR', inst, fn.loc(c), 'Pass::readPass starts %s at line %s before the extent test `%s` (line %s) has run: the decoder reads the pass up to an end pointer that has not '
                     'been compared with the end of the pass yet' % ((c.get('fq') or '').split('graphite2::')[-1], c['ln'], fn.render(t)[:70], t['ln']))
    else:
        run.held('VALIDATOR', inst, fn.where(), '%d tests against pass_end dominate all %d consumers' % (len(tests), len(cons)))


def attridx(run, fx):
    """OPERANDCHECK: the per-attribute operand limit table `limits::attrid[]` is indexed by an attribute number taken from the bytecode;
    every such subscript in the decoder is dominated by the TRUE result of valid_upto(gr_slatMax, <the same operand>) (sibling
    agreement: the three opcode groups that use a sub-index all nest the second test inside the first)."""
    n = 0
    for fn in fx.all_fns():
        if 'Machine::Code::decoder' not in fn.q:
            continue
        for _, e in fn.elements():
            if e['k'] != 'ArraySubscriptExpr' or not fn.render(fn.N(e['c'][0])).endswith('attrid'):
                continue
            n += 1
            ix = fn.render(fn.strip_all_casts(fn.N(e['c'][1])))
            inst = 'attrid[%s] @%s is indexed under valid_upto(gr_slatMax, %s)' % (ix, e['ln'], ix)
            ok = [f for f in dom.facts_at(fn, e['i']) if 'valid_upto(' in f[0] and f[0].rstrip(')').endswith(', ' + ix) and f[1] == '!=' and f[2] == '0']
            if ok:
                run.held('OPERANDCHECK', inst, fn.loc(e), 'dominated by %s' % ok[0][0])
            else:
                run.violated('OPERANDCHECK', inst, fn.loc(e), 'the attribute-limit table is indexed with the bytecode operand `%s` although no dominating valid_upto(gr_slatMax, %s) has '
                             'succeeded: an attribute number beyond the table reads (on the loader\'s stack) past its end; the font is rejected afterwards, the read has happened' % (ix, ix))
    if n < 1:
        run.broken('OPERANDCHECK', 'attrid subscripts', 'no attrid[] subscript found in the decoder (three on the pinned tree; arms may be merged)')


def narrowinit(run, fx):
    """an offset or size computed from a count read from the font (`header + sizeof(T) * (count + 1)`) must not be held in a type it
    can overflow: no local of at most 16 bits in src/ is initialised, by an implicit narrowing conversion, from a wider non-constant
    sum / product / shift.  (Silf::readClassOffsets<uint16> kept the class-data base in a uint16: defect F20, repaired.)  The validators
    that follow such a value compare against the wrapped number, so every later bound is void."""
    from .cfg import int_type
    n, seen = 0, set()
    for fn in fx.all_fns():
        if not fn.file.startswith('src/') or fn.f.get('implicit'):
            continue
        for _, e in fn.elements():
            if e['k'] != 'DeclStmt':
                continue
            for x in e.get('decls', []):
                if x.get('init') is None:
                    continue
                n += 1
                c = fn.N(x['init'])
                if c['k'] != 'ImplicitCastExpr' or c.get('ck') != 'IntegralCast' or c.get('v') is not None:
                    continue
                src = fn.N(c['c'][0])
                tt, ft = int_type(x.get('t') or c.get('t')), int_type(src.get('t'))
                inner = fn.strip_all_casts(src)
                if not (tt and ft and tt[0] < ft[0] and tt[0] <= 16 and inner['k'] == 'BinaryOperator' and inner['op'] in ('*', '+', '<<')):
                    continue
                key = (fn.file, e['ln'], x.get('n'))
                if key in seen:
                    continue
                seen.add(key)
                run.violated('VALIDATOR', 'no computed size is narrowed into a 16-bit local: %s in %s' % (x.get('n'), fn.q.split('graphite2::')[-1].split('<')[0]), fn.loc(e),
                             '`%s %s = %s` converts a %d-bit sum/product to %d bits without a test: for large counts the value wraps, and the range tests made against it '
                             '(and everything read under them) are off by 2^%d' % (x.get('t'), x.get('n'), fn.render(inner)[:80], ft[0], tt[0], tt[0]))
    if n < 1000:
        run.broken('VALIDATOR', 'no computed size is narrowed into a 16-bit local', 'only %d initialised locals were scanned' % n)
    elif not seen:
        run.held('VALIDATOR', 'no computed size is narrowed into a 16-bit local', '', '%d initialised locals scanned' % n)


def countarray(run, fx):
    """count / array pairs of the loaders: where a function stores a member array  A = new T[C] / gralloc<T>(.. C ..)  sized by a member
    count C that it also reads from the font, the count is only trustworthy together with the array.  From the store of an input value
    to C, no SUCCESS return (`return true`) is reachable without passing the allocation of A or a store C = 0: a loader that leaves early
    in between hands out a face with a non-zero count and no array (gr_face_lang_by_index(i < n_languages) dereferences null)."""
    from .util import reaches_avoiding
    n, bad = 0, []
    for fn in fx.all_fns():
        if not (fn.f.get('file') or '').startswith('src/') or fn.f.get('implicit'):
            continue
        els = [e for _, e in fn.elements()]
        allocs = []
        for e in els:
            if e['k'] != 'BinaryOperator' or e.get('op') != '=':
                continue
            l = fn.strip(e['c'][0])
            if l['k'] != 'MemberExpr' or fn.render(fn.N(l['c'][0])) != 'this' or '*' not in (l.get('t') or ''):
                continue
            r = fn.strip_all_casts(fn.N(e['c'][1]))
            if r['k'] == 'CXXNewExpr' or (r['k'] == 'CallExpr' and (r.get('fq') or '').split('<')[0] in ('graphite2::gralloc', 'graphite2::grzeroalloc')):
                cnt = {x.get('d') for x in fn.walk(e['c'][1]) if x['k'] == 'MemberExpr' and x.get('d') and fn.render(fn.N(x['c'][0])) == 'this'} if r['k'] != 'CXXNewExpr' else \
                      {x.get('d') for x in fn.walk(r.get('asize')) if x['k'] == 'MemberExpr' and x.get('d')} if r.get('asize') is not None else set()
                allocs.append((e, l.get('d'), cnt))
        for ae, afield, cnts in allocs:
            for cf in cnts:
                cstores = [e for e in els if e['k'] == 'BinaryOperator' and e.get('op') == '=' and fn.strip(e['c'][0]).get('d') == cf and fn.render(fn.N(fn.strip(e['c'][0])['c'][0])) == 'this']
                inputs = [e for e in cstores if fn.strip_all_casts(fn.N(e['c'][1])).get('v') is None]
                zeros = [e for e in cstores if fn.strip_all_casts(fn.N(e['c'][1])).get('v') == 0]
                succ = [e for e in els if e['k'] == 'ReturnStmt' and e.get('c') and fn.strip_all_casts(fn.N(e['c'][0])).get('v') in (1, True)]
                if not inputs or not succ:
                    continue
                n += 1
                cname = 'this->' + cf.split('::')[-1]
                cut = dom.edges_with(fn, lambda f, cname=cname: f[0] == cname and f[1] == '==' and f[2] == '0')       # `if (count) { allocate }`: no array needed for none
                stop = {fn.block_of[x['i']] for x in [ae] + zeros}
                for ie in inputs:
                    b0 = fn.block_of[ie['i']]
                    order = [x['i'] for x in fn.blocks[b0]['el']]
                    if any(fn.block_of[x['i']] == b0 and order.index(x['i']) > order.index(ie['i']) for x in [ae] + zeros):
                        continue                # allocated (or reset) straight after, in the same block
                    seen, todo = set(), [(b0, True)]
                    while todo:
                        b_, first = todo.pop()
                        if b_ is None or (b_ in seen and not first):
                            continue
                        if not first:
                            seen.add(b_)
                            if b_ in stop:
                                continue
                        hit = [r for r in succ if fn.block_of[r['i']] == b_]
                        if hit and (not first or order.index(hit[0]['i']) > order.index(ie['i'])):
                            bad.append((fn, cf, afield, ie, hit[0]))
                            break
                        for idx_, x_ in enumerate(fn.blocks[b_]['succ']):
                            if (b_, idx_) not in cut:
                                todo.append((x_, False))
    inst = 'a count read from the font is not left behind without its array'
    if n < 1:
        run.broken('VALIDATOR', inst, 'no count / array pair with a success return was found')
    elif bad:
        fn, cf, af, ie, r = bad[0]
        run.violated('VALIDATOR', inst, fn.loc(r), '%s stores the count %s from the font at %s and can return success at %s without having allocated %s or reset the count: the face reports %s entries '
                     'and has no array -- the first indexed access dereferences null' % (fn.q.split('::')[-1], cf.split('::')[-1], fn.loc(ie), fn.loc(r), af.split('::')[-1], cf.split('::')[-1]))
    else:
        run.held('VALIDATOR', inst, '', '%d count / array pairs with a success return' % n)


def glatend(run, fx):
    """VALIDATOR: the Glat attribute iterators are 'equal to the end' as soon as fewer bytes are left than one value takes: operator*
    reads a whole value at the cursor (be::peek<uint16>(_v): 2 bytes), so the loop that consumes a glyph's attribute span
    (sparse::sparse, `i != last`) may only continue while  end - cursor >= 2.  As linear forms: operator== answers `_v >= rhs._e - k`
    with k >= (bytes read by operator*) - 1.  With k = 0 a span that ends half-way through a value -- at the very end of the Glat table
    -- is read one byte too far."""
    from . import linear
    from .cfg import int_type
    n = 0
    for fn in fx.all_fns():
        if '_glat_iterator<' not in fn.q and '_glat_iterator<' not in (fn.f.get('qt') or ''):
            continue
        if not fn.q.endswith('operator=='):
            continue
        cls = fn.f.get('cls') or fn.q.rsplit('::', 1)[0]
        rets = [e for _, e in fn.elements() if e['k'] == 'ReturnStmt' and e.get('c')]
        stars = [g for g in fx.all_fns() if g.q.endswith('operator*') and (g.f.get('cls') or g.q.rsplit('::', 1)[0]) == cls and (g.f.get('unit') == fn.f.get('unit'))]
        inst = 'the Glat iterator stops while a whole value is left (%s)' % (fn.f.get('qt') or fn.q).split('_glat_iterator')[-1].split('::')[0]
        if len(rets) != 1 or not stars:
            run.broken('VALIDATOR', inst, 'operator== / operator* of the Glat iterator not recognised', fn.where())
            continue
        width = 0
        for _, e in stars[0].elements():
            if e['k'] == 'CallExpr' and (e.get('fq') or '').split('<')[0].endswith(('be::peek', 'be::read')) and '_v' in stars[0].render(e):
                it_ = int_type(e.get('t'))
                if it_:
                    width = max(width, it_[0] // 8)
        c = fn.strip_all_casts(fn.N(rets[0]['c'][0]))
        if c['k'] != 'BinaryOperator' or c.get('op') not in ('>=', '>') or not width:
            run.broken('VALIDATOR', inst, 'the end test is not of the form cursor >= end - k (%s), or the value width is unknown' % fn.render(c), fn.where())
            continue
        a, b = linear.lin(fn, c['c'][0], through_unsigned=True), linear.lin(fn, c['c'][1], through_unsigned=True)
        t, k = linear.diff(a, b)             # cursor - end + k  (>= 0 | > 0)
        if sorted(t.values()) != [-1, 1]:
            run.broken('VALIDATOR', inst, 'the end test compares something other than the cursor with the end: %s' % fn.render(c), fn.where())
            continue
        n += 1
        k_eff = k - (1 if c['op'] == '>' else 0)          # stops when cursor >= end - k_eff
        if k_eff >= width - 1:
            run.held('VALIDATOR', inst, fn.loc(rets[0]), '`%s`: the loop continues only while %d byte(s) are left; operator* reads %d' % (fn.render(c), k_eff + 1, width))
        else:
            run.violated('VALIDATOR', inst, fn.loc(rets[0]), 'the iterator counts as "at the end" only when `%s`, so the consuming loop (sparse::sparse) still dereferences it with %d byte(s) left while '
                         'operator* reads %d: a glyph\'s attribute span that ends inside a value at the end of the Glat table is read past the table' % (fn.render(c), k_eff + 1, width))
    if n < 2:
        run.broken('VALIDATOR', 'the Glat iterator stops while a whole value is left', 'expected both instantiations of _glat_iterator::operator==, recognised %d' % n)


def glocids(run, fx, rule='VALIDATOR'):
    """the number of glyphs with attributes is derived from the size of Gloc: (size - header - attribute-id array) / entry size - 1.
    The attribute-id array (present when flag bit 1 is set) is uint16[numAttribs] in BOTH Gloc formats (GTF: `USHORT attribIds[]`); only
    the location entries are 16 or 32 bits wide.  So the term that is subtracted for it is  2 * numAttribs  -- a constant 2, not the
    entry size: with 4 in the long format the count is short by numAttribs / 2 glyphs, gr_face_n_glyphs shrinks, and the font's own
    rules put glyph ids at or above it into slots."""
    fn = fx.one('graphite2::GlyphCache::Loader::Loader')
    inst = 'the Gloc attribute-id array is counted in 16-bit units'
    hits = []
    for _, e in fn.elements():
        if e['k'] == 'BinaryOperator' and e.get('op') == '*':
            sides = [fn.strip_all_casts(fn.N(c_)) for c_ in e['c']]
            for a, b in ((sides[0], sides[1]), (sides[1], sides[0])):
                if a['k'] == 'ConditionalOperator' and '_num_attrs' in fn.render(a) and '& 2' in fn.render(a).replace('0x2', '2'):
                    hits.append((e, b))
    if len(hits) != 1:
        run.broken(rule, inst, 'the term `unit * (flags & 2 ? _num_attrs : 0)` of the Gloc size arithmetic was not recognised (%d candidates)' % len(hits), fn.where())
        return
    e, unit = hits[0]
    v = unit.get('v')
    if v is None and unit['k'] == 'DeclRefExpr' and unit.get('vid') in fn.const_init:
        v = fn.strip_all_casts(fn.N(fn.const_init[unit['vid']])).get('v')
    if v == 2:
        run.held(rule, inst, fn.loc(e), fn.render(e))
    else:
        run.violated(rule, inst, fn.loc(e), 'GlyphCache::Loader subtracts `%s` for the attribute-id array of Gloc; that array is uint16[numAttribs] in both formats, so the unit is 2 -- with the '
                     'entry size of the long format the number of glyphs is under-counted by numAttribs / 2: gr_face_n_glyphs shrinks and the font\'s rules produce glyph ids at or above it' % fn.render(e))


def run(run):
    vm = R.get_vm(run)
    fx = vm.fx
    narrowinit(run, fx)
    countarray(run, fx)
    glatend(run, fx)
    glocids(run, fx)
    attridx(run, fx)
    checkafteruse(run, fx)
    extentfirst(run, fx)
    namebound(run, fx)
    platrange_exec(run, fx)
    from . import c16 as c16o_
    c16o_.opscopy_exec(run, fx, 'VALIDATOR')        # Face::Face reads no further into the caller's gr_face_ops than its size member says (shared with C16)
    from . import c13
    c13.narrowread(run, fx)
    validators.check(run, fx, 'VALIDATOR')
    opchecks.check(run, vm, 'OPERANDCHECK')
    errdisc(run, fx)
    nestguard(run, vm)
    from .util import OnlyRules as _Only
    from . import c09 as c09_
    try:
        c09_.telescope(_Only(run, ['NOGLOBAL'], {'NOGLOBAL': 'VALIDATOR'}, soft=True))      # telemetry build: the process-wide allocation counter does not point into a face that has been destroyed (shared with C09)
    except Exception as ex:
        run.observe('telemetry scope rule of C09 could not be evaluated here: %s' % ex)
    from .util import share as _share
    if not getattr(run, '_sharing', False):
        run._sharing = True
        try:
            _share(run, 'c14', ['COPYGUARD'], 'VALIDATOR')       # a compressed table is font data too: the decoder's copies stay inside both buffers (shared with C14)
        finally:
            run._sharing = False
    const_(run, vm)
    c16.tablets(run, fx)
    c16.ownfield(run, fx)
    c16.overwrite(run, fx)
    c16.freenull(run, fx)
    c16.ownlocal(run, fx, None)
    from . import c10
    try:
        c10.boxcount(run, fx)      # gr_face_preloadGlyphs: the box pool is as large as what read_box writes into it (shared with C10, C02)
        c10.boxsize(run, fx)
    except Exception as ex:
        run.broken('LOADERSIB', 'box records', str(ex))
    run.assume('allocation failure is outside the quantifier (inputs, configurations)')
    run.observe('general absence of out-of-bounds reads in the table parsers is not decided: the parsers are safe partly by arithmetic that no check states '
                '(e.g. Face::readGraphite reads the i-th sub-table offset without a size test and is in bounds only because accepted sub-tables are >= 20 bytes)')
