"""VECTOR: graphite2::Vector<T> (src/inc/List.h) is a hand-written container on top of realloc/memmove and placement new; FeatureVal is a
Vector<uint32>, the collision fixer's interval set a Vector<Exclusion>, and rules/ordint.py models the class natively when it interprets
their users.  This rule interprets List.h's OWN code (the Vector<unsigned int> instantiation, raw m_first / m_last / m_end pointers into a
modelled heap) for every size 0..9: resize(n, v) -- the operation FeatureRef::applyValToFeature relies on -- gives a vector of exactly n
elements, the old ones unchanged, every new one equal to v (none left as realloc returned it); push_back appends; insert(p, x) and
erase(p) shift the tail.  It also is the justification for the native model: list semantics, storage that may move on growth."""
from . import ordint as O
from .facts import AnalysisBroken

Q = 'graphite2::Vector<unsigned int>'
ESZ = 4


class Uninit:
    def __repr__(self):
        return '<uninitialised>'


def _natives(heap):
    def realloc(it, f, e, obj, args):
        p, nbytes = it.rv(args[0]), it.rv(args[1])
        if not isinstance(nbytes, int) or nbytes % ESZ:
            raise AnalysisBroken('realloc of %r bytes in the vector model' % (nbytes,))
        n = nbytes // ESZ
        new = O.Vec([Uninit() for _ in range(n)])
        if isinstance(p, O.It):
            for k in range(min(n, len(p.vec.items))):
                new.items[k] = p.vec.items[k]
            p.vec.gen += 1                      # the old block is gone
            p.vec.items[:] = []
        heap.append(new)
        return O.It(new, 0)

    def memmove(it, f, e, obj, args):
        d, s_, nb = [it.rv(a) for a in args[:3]]
        if not (isinstance(d, O.It) and isinstance(s_, O.It) and isinstance(nb, int) and nb % ESZ == 0):
            raise AnalysisBroken('memmove with arguments the vector model does not know')
        n = nb // ESZ
        src = [it.deref_it(O.It(s_.vec, s_.idx + k, s_.gen), f, e).load() for k in range(n)]
        for k in range(n):
            it.deref_it(O.It(d.vec, d.idx + k, d.gen), f, e).store(src[k])
        return d

    def checked_mul(it, f, e, obj, args):
        a, b = it.rv(args[0]), it.rv(args[1])
        args[2].store(a * b)
        return False

    def abort(it, f, e, obj, args):
        raise O.Violation('std::abort() is reached', f.loc(e))

    def distance(it, f, e, obj, args):
        a, b = it.rv(args[0]), it.rv(args[1])
        return b.idx - a.idx
    return {'realloc': realloc, 'memmove': memmove, 'memcpy': memmove, 'graphite2::checked_mul': checked_mul, 'abort': abort, 'std::abort': abort,
            'std::distance': distance, 'distance': distance, 'free': lambda *a: None}


def _mkvec(contents, cap):
    heap = []
    v = O.Rec()
    block = O.Vec(list(contents) + [Uninit() for _ in range(cap - len(contents))])
    heap.append(block)
    v[Q + '::m_first'] = O.It(block, 0) if cap else O.Ptr(None)
    v[Q + '::m_last'] = O.It(block, len(contents)) if cap else O.Ptr(None)
    v[Q + '::m_end'] = O.It(block, cap) if cap else O.Ptr(None)
    return v, heap


def _contents(v):
    a, b = v[Q + '::m_first'], v[Q + '::m_last']
    if isinstance(a, O.Ptr) and a.rec is None:
        return []
    if not (isinstance(a, O.It) and isinstance(b, O.It) and a.vec is b.vec and a.idx == 0 and 0 <= b.idx <= len(a.vec.items)):
        raise O.Violation('m_first / m_last no longer delimit one block', '')
    return a.vec.items[:b.idx]


def check(run, fx, rule):
    fns = {n: fx.fns_named(Q + '::' + n) for n in ('resize', 'push_back', 'insert', 'erase', 'reserve')}
    if not fns['resize']:
        run.broken(rule, 'Vector::resize gives n initialised elements', 'graphite2::Vector<unsigned int>::resize has no facts (no longer instantiated?)')
        return
    rz = fns['resize'][0]
    cases, prob = 0, None
    try:
        for s0 in range(0, 10):
            for cap in sorted({s0, ((s0 + 7) >> 3) << 3}):
                for n in range(0, 12):
                    old = [100 + k for k in range(s0)]
                    v, heap = _mkvec(old, cap)
                    it = O.Interp(fx, natives=_natives(heap))
                    it.raw_vectors = True
                    it.MAX_STEPS = 6000
                    try:
                        it.call(rz, v, [n, O.LV([77], 0)])
                        got = _contents(v)
                    except O.Violation as ex:
                        prob = 'resize(%d) of a vector of %d (capacity %d): %s (%s)' % (n, s0, cap, ex.what, ex.loc)
                        break
                    cases += 1
                    want = old[:n] + [77] * max(0, n - s0)
                    if got != want:
                        bad = [k for k in range(max(len(got), len(want))) if k >= len(got) or k >= len(want) or got[k] != want[k]]
                        prob = ('resize(%d, v) of a vector of %d element(s) (capacity %d) leaves %d element(s); element(s) %s are wrong (%s) -- new elements must equal v, old ones stay'
                                % (n, s0, cap, len(got), bad[:5], [repr(got[k]) if k < len(got) else 'missing' for k in bad[:3]]))
                        break
                if prob:
                    break
            if prob:
                break
    except AnalysisBroken as ex:
        run.broken(rule, 'Vector::resize gives n initialised elements', str(ex), rz.where())
        return
    if prob:
        run.violated(rule, 'Vector::resize gives n initialised elements', rz.where(), 'graphite2::Vector<T>: ' + prob)
    else:
        run.held(rule, 'Vector::resize gives n initialised elements', rz.where(), '%d abstract executions of List.h\'s own code (sizes 0..9 x targets 0..11)' % cases)
