"""C16 -- table callbacks follow strict borrow discipline; nothing is leaked.

  WIT         Face::Table cannot be copied (compile-fail witness + compiling move twin)
  TABLETS     typestate of the one RAII class that owns a borrowed table: constructor releases on a failed
              check, release() calls release_table only for a non-null borrowed buffer / frees an owned one and
              nulls _p on every path, destructor and operator= release first, the move operations carry every
              field (incl. the ownership flag) and null the source, decompress releases before replacing _p
  NOCALLBACK  who may call get_table / release_table; unreachable from the shaping API (shared with C09)
  PRELOAD / NAMEPRELOAD  no get_table after gr_make_face with gr_face_preloadAll (shared with C09)
  NOESCAPE    interprocedural pointer taint on the IR: no pointer derived from a Face::Table buffer is stored into
              memory that outlives the table (allowed: Table::_p, DirectCmap::{_smp,_bmp})
  OWNFIELD    every allocator-assigned pointer field has its deallocation on every path of its class's
              destructor (bypass only on the field-is-null edge / tabled ownership flag)
  OWNLOCAL    every function-local allocation is freed, returned, stored or handed over on every
              non-allocation-failure path to the function's exits
"""
import os
import subprocess
from . import effrules as ER
from . import c09, dom
from . import facts as F
from .facts import AnalysisBroken
from .util import calls_in, field_writes, CALL_KINDS

LEVEL = 'other'
EXPLANATION = ('Borrow discipline decided structurally: a compile-fail witness that the table holder cannot be copied; CFG typestate '
               'rules on Face::Table (constructor, release, destructor, move operations, decompress); who-may-call on the two '
               'application callbacks from the IR call graph; must-pass rules that the destructor of every class frees each '
               'allocator-assigned field and that every function-local allocation reaches a release/hand-over on every non-exempt '
               'path (this covers the failed-gr_make_face exits); the C09 rules that the lazy table users are dead after preloadAll.  '
               'Allocator balance as a number is NOT decided.')
FLOORS = {'NOESCAPE': 60, 'WIT': 3, 'TABLETS': 12, 'NOCALLBACK': 4, 'OWNFIELD': 40, 'OWNLOCAL': 12, 'PRELOAD': 2, 'NAMEPRELOAD': 2}

ALLOC_FNS = ('graphite2::gralloc', 'graphite2::grzeroalloc', 'malloc', 'calloc', 'realloc')


# --------------------------------------------------------------------------------------------- WIT
def wit(run):
    flags = F.flags_for('Q0')
    base = ['clang++', '-fsyntax-only', '-ferror-limit=0'] + flags
    neg = os.path.join(F.VERIF, 'witness', 'table_copy_neg.cpp')
    pos = os.path.join(F.VERIF, 'witness', 'table_move_pos.cpp')
    flags_w = [f for f in base if f != '-Wno-everything']
    p = subprocess.run(flags_w + [neg], cwd=F.REPO, capture_output=True, text=True)
    errs = [l for l in p.stderr.splitlines() if ': error:' in l]
    lines = open(neg).read().splitlines()
    marks = {i + 1: l for i, l in enumerate(lines) if 'WITNESS-' in l}
    for ln, text in sorted(marks.items()):
        tag = text.split('WITNESS-')[1].split(':')[0]
        mine = [e for e in errs if ('table_copy_neg.cpp:%d:' % ln) in e]
        inst = 'copy witness %s' % tag
        if mine and ('deleted' in mine[0] or 'private' in mine[0] or 'cannot be assigned' in mine[0] or 'no matching' in mine[0] or 'no viable' in mine[0]):
            run.held('WIT', inst, 'witness/table_copy_neg.cpp:%d' % ln, 'rejected: %s' % mine[0].split('error:')[1].strip()[:120])
        else:
            run.violated('WIT', inst, 'src/inc/Face.h', 'Face::Table can be copied (%s compiles): two holders of one borrowed table release it twice / '
                         'use it after release' % text.strip().split('//')[0].strip())
    other = [e for e in errs if not any(('table_copy_neg.cpp:%d:' % ln) in e for ln in marks)]
    if other:
        run.broken('WIT', 'witness unit', 'the witness does not parse apart from the expected errors: %s' % other[0][:200])
    p = subprocess.run(flags_w + [pos], cwd=F.REPO, capture_output=True, text=True)
    if p.returncode == 0:
        run.held('WIT', 'move twin compiles', 'witness/table_move_pos.cpp', 'Face::Table is movable', False)
    else:
        run.broken('WIT', 'move twin compiles', 'the positive twin no longer compiles: %s' % p.stderr[-300:])


# ----------------------------------------------------------------------------------------- TABLETS
def _all_paths_pass(fn, start_block, pass_blocks, bypass_edges=(), exempt_blocks=(), void_edges=(), first=None):
    """True when every path from start_block to the function exit goes through one of pass_blocks,
    except paths that take a bypass edge or enter an exempt block.  Leaving a pass block by a void edge undoes the pass
    (the hand-over in that block did not take place on that edge)."""
    seen, st = set(), [start_block]
    while st:
        b = st.pop()
        if b in seen or b in exempt_blocks:
            continue
        if b in pass_blocks and b != first:
            seen.add(b)
            for idx, s in enumerate(fn.blocks[b]['succ']):
                if s is not None and (b, idx) in void_edges:
                    st.append(s)
            continue
        seen.add(b)
        if b == fn.exit:
            return False
        for idx, s in enumerate(fn.blocks[b]['succ']):
            if s is None or (b, idx) in bypass_edges:
                continue
            st.append(s)
    return True


def flagpair(run, fx):
    """Face::Table::release() decides from `_compressed` whether the buffer in `_p` is the library's own (free) or the application's
    (release_table).  The flag therefore changes only together with the pointer: in no method of Face::Table can a store to
    `_compressed` reach a call of release() without a store to `_p` in between -- release() would judge the OLD buffer by the NEW flag
    (the application's compressed table passed to free(), or the library's buffer passed to the application)."""
    from .util import reaches_avoiding
    T = 'graphite2::Face::Table'
    n = 0
    for fn in fx.all_fns():
        if fn.f.get('cls') != T or fn.f.get('implicit'):
            continue
        st = [e for _, e in fn.elements() if e['k'] == 'BinaryOperator' and e['op'] == '=' and fn.strip(e['c'][0]).get('d') == T + '::_compressed']
        ps = [e for _, e in fn.elements() if e['k'] == 'BinaryOperator' and e['op'] == '=' and fn.strip(e['c'][0]).get('d') == T + '::_p']
        rels = calls_in(fn, T + '::release')
        for s_ in st:
            n += 1
            inst = 'flag and pointer change together in %s @%s' % (fn.q.split('::')[-1], s_['ln'])
            bad = [r for r in rels if reaches_avoiding(fn, s_, r, avoid=ps)]
            if bad:
                run.violated('TABLETS', inst, fn.loc(bad[0]), '`%s` reaches release() at line %s before `_p` is replaced: release() judges the buffer it is about to give up by the flag of '
                             'the buffer that is about to be installed -- the application\'s table goes to free() (or the library\'s own buffer to release_table)' % (fn.render(s_), bad[0]['ln']))
            else:
                run.held('TABLETS', inst, fn.loc(s_), 'no release() between this store and the next store of _p')
    if n < 1:
        run.broken('TABLETS', 'flag and pointer change together', 'no store to Face::Table::_compressed found outside initialisers', '')
    # a held buffer is dropped only through release(): Face::Table::decompress replaces _p -- every store to _p there comes after release()
    dc = fx.one(T + '::decompress')
    rels = calls_in(dc, T + '::release')
    ps = [e for _, e in dc.elements() if e['k'] == 'BinaryOperator' and e['op'] == '=' and dc.strip(e['c'][0]).get('d') == T + '::_p']
    relb = {dc.block_of[r['i']] for r in rels}
    if not ps or not rels:
        run.broken('TABLETS', 'decompress drops the compressed buffer only through release()', 'stores to _p / release() calls not found in decompress', dc.where())
    for e in ps:
        inst = 'decompress drops the compressed buffer only through release() @%s' % e['ln']
        seen, st, hit = set(), [dc.entry], False
        tb = dc.block_of[e['i']]
        while st:
            b = st.pop()
            if b in seen:
                continue
            seen.add(b)
            if b == tb:
                if not (b in relb and any(dc.pos_of[r['i']] < dc.pos_of[e['i']] for r in rels if dc.block_of[r['i']] == b)):
                    hit = True
                    break
                continue
            if b in relb:
                continue
            st.extend(x for x in dc.succs(b) if x is not None)
        if hit:
            run.violated('TABLETS', inst, dc.loc(e), '`%s` can be reached without release() having run: the table obtained from get_table is forgotten, never handed back through release_table' % dc.render(e))
        else:
            run.held('TABLETS', inst, dc.loc(e), 'every path to this store passes release()')


def tablets(run, fx):
    flagpair(run, fx)
    inst_ = 'every buffer goes back exactly once, the right way (Table life cycle interpreted)'
    try:
        from . import ordint as O_
        cases_, bad_ = table_exec(run, fx)
        if bad_:
            run.violated('TABLETS', inst_, fx.one('graphite2::Face::Table::release').where(), bad_)
        else:
            run.held('TABLETS', inst_, fx.one('graphite2::Face::Table::release').where(), '%d life cycles' % cases_)
    except (AnalysisBroken, O_.AnalysisBroken) as ex:
        run.broken('TABLETS', inst_, str(ex), '')
    T = 'graphite2::Face::Table'
    rec = fx.record(T)
    fields = [f['n'] for f in rec['fields']]
    # --- constructor: release() on the failed-CheckTable path
    ctor = [f for f in fx.fns_named(T + '::Table') if 'const graphite2::Face &' in f.f['sig']]
    if len(ctor) != 1:
        raise AnalysisBroken('Face::Table(const Face&, Tag, uint32) not found')
    ctor = ctor[0]
    gt = [e for _, e in ctor.elements() if e['k'] == 'CallExpr' and not e.get('fq') and ('get_table' in ctor.render(e) or 'get_table' in ctor.render(e, resolve=True))]
    if not gt:
        raise AnalysisBroken('Face::Table ctor: get_table call not found')
    fail_edges = dom.edges_with(ctor, lambda f: 'CheckTable' in f[0] and f[1] == '==' and f[2] == '0')
    rel = calls_in(ctor, T + '::release')
    okc = False
    for (b, idx) in fail_edges:
        s = ctor.blocks[b]['succ'][idx]
        if rel and _all_paths_pass(ctor, s, {ctor.block_of[r['i']] for r in rel}):
            okc = True
    if okc:
        run.held('TABLETS', 'ctor releases on failed check', ctor.loc(rel[0]), 'CheckTable false -> release() on every path to the exit')
    else:
        run.violated('TABLETS', 'ctor releases on failed check', ctor.where(), 'Face::Table\'s constructor no longer releases the borrowed buffer on every '
                     'path where TtfUtil::CheckTable rejected it: a corrupt table is never passed to release_table')
    # --- a borrowed buffer is only ever dropped through release(): in the constructor no other store to _p can be reached from
    #     the get_table store without release() in between, unless _p is known null there (nothing was borrowed)
    from .util import reaches_avoiding
    pstores = [e for _, e in ctor.elements() if e['k'] == 'BinaryOperator' and e['op'] == '=' and ctor.render(ctor.N(e['c'][0])) == 'this->_p']
    gstore = [e for e in pstores if any(x['i'] == gt[0]['i'] for x in ctor.walk(e['c'][1]) if 'i' in x)]
    if len(gstore) != 1:
        run.broken('TABLETS', 'ctor drops a borrowed buffer only through release()', 'the store of get_table\'s result into _p was not found', ctor.where())
    else:
        badst = []
        for e in pstores:
            if e is gstore[0]:
                continue
            if reaches_avoiding(ctor, gstore[0], e, avoid=rel):
                fs = dom.facts_at(ctor, e['i'])
                if not any(f[:3] == ('this->_p', '==', '0') for f in fs):
                    badst.append(e)
        if badst:
            run.violated('TABLETS', 'ctor drops a borrowed buffer only through release()', ctor.loc(badst[0]),
                         'Face::Table\'s constructor overwrites _p (%s) on a path where it may still hold the pointer get_table returned and release() has not run: '
                         'that buffer is never passed to release_table' % ctor.render(badst[0]))
        else:
            run.held('TABLETS', 'ctor drops a borrowed buffer only through release()', ctor.loc(gstore[0]),
                     '%d other store(s) to _p in the constructor, none reachable from the get_table store without release()' % (len(pstores) - 1))
    # --- release()
    rl = fx.one(T + '::release')
    rt = [e for _, e in rl.elements() if e['k'] == 'CallExpr' and not e.get('fq') and ('release_table' in rl.render(e) or 'release_table' in rl.render(e, resolve=True))]
    fr = calls_in(rl, 'free')
    probs = []
    if len(rt) != 1:
        probs.append('%d release_table call sites' % len(rt))
    else:
        fs = dom.facts_at(rl, rt[0]['i'])
        if not any(f[:3] == ('this->_compressed', '==', '0') for f in fs):
            probs.append('release_table reachable for an owned (decompressed) buffer')
        if not any(f[:3] == ('this->_p', '!=', '0') for f in fs):
            probs.append('release_table reachable with a null buffer (released twice)')
        if not any('release_table' in f[0] and f[1] == '!=' for f in fs):
            probs.append('release_table pointer not null-tested')
    if len(fr) != 1:
        probs.append('%d free() sites' % len(fr))
    else:
        fs = dom.facts_at(rl, fr[0]['i'])
        if not any(f[:3] == ('this->_compressed', '!=', '0') for f in fs):
            probs.append('free() of a buffer that may be borrowed')
    nulls = [e for _, e in rl.elements() if e['k'] == 'BinaryOperator' and e['op'] == '=' and rl.render(rl.N(e['c'][0])) == 'this->_p'
             and rl.strip_all_casts(e['c'][1]).get('v') == 0]
    if not nulls or rl.block_of[nulls[0]['i']] not in rl.postdominators()[rl.entry]:
        probs.append('_p is not nulled on every path (a second release would hand the buffer back twice)')
    if probs:
        run.violated('TABLETS', 'release()', rl.where(), 'Face::Table::release: ' + '; '.join(probs))
    else:
        run.held('TABLETS', 'release()', rl.where(), 'release_table only for a non-null borrowed buffer, free only for an owned one, _p nulled on every path')
    # --- destructor
    dt = fx.one(T + '::~Table')
    r = calls_in(dt, T + '::release')
    if r and dt.block_of[r[0]['i']] in dt.postdominators()[dt.entry]:
        run.held('TABLETS', 'destructor releases', dt.where(), '~Table -> release()')
    else:
        run.violated('TABLETS', 'destructor releases', dt.where(), 'Face::Table\'s destructor does not call release() on every path')
    # --- move constructor: every field from the same field of rhs, rhs._p nulled
    mv = [f for f in fx.fns_named(T + '::Table') if 'Table &&' in f.f['sig']]
    if len(mv) != 1:
        raise AnalysisBroken('Face::Table move constructor not found')
    mv = mv[0]
    inits = {}
    for _, e in mv.elements():
        if e['k'] == 'Init' and e.get('field'):
            inits[e['field'].split('::')[-1]] = mv.render(mv.N(e['init'])) if e.get('init') is not None else None
    bad = [f for f in fields if inits.get(f) != 'rhs.%s' % f]
    srcnull = [e for _, e in mv.elements() if e['k'] == 'BinaryOperator' and e['op'] == '=' and mv.render(mv.N(e['c'][0])) == 'rhs._p'
               and mv.strip_all_casts(e['c'][1]).get('v') == 0]
    if bad or not srcnull:
        run.violated('TABLETS', 'move constructor', mv.where(), 'Face::Table(Table&&) must take every field from its source and null rhs._p: '
                     'fields not carried over %s, source nulled: %s' % (bad, bool(srcnull)))
    else:
        run.held('TABLETS', 'move constructor', mv.where(), 'carries %s, nulls rhs._p' % fields)
    # --- move assignment
    ma = fx.one(T + '::operator=')
    r = calls_in(ma, T + '::release')
    news = [e for _, e in ma.elements() if e['k'] == 'CXXNewExpr' and e.get('nplace') == 1]
    probs = []
    via_ctor = False
    for n in news:
        ini = ma.N(n['init']) if n.get('init') is not None else None
        if ini is not None and (ini.get('fq') or '') == T + '::Table' and ini.get('movector'):
            via_ctor = True
            nb = ma.block_of[n['i']] if 'i' in n else None
    if not r:
        probs.append('does not release the table it held')
    if via_ctor:
        # release dominates the re-construction
        nn = [n for n in news if 'i' in n]
        if r and nn and not (ma.block_of[r[0]['i']] in ma.dominators()[ma.block_of[nn[0]['i']]]):
            probs.append('release() does not dominate the re-construction')
    else:
        assigned = set()
        for _, e in ma.elements():
            if e['k'] == 'BinaryOperator' and e['op'] == '=':
                l, rr = ma.render(ma.N(e['c'][0])), ma.render(ma.strip_all_casts(e['c'][1]))
                if l.startswith('this->') and rr == 'rhs.' + l[6:]:
                    assigned.add(l[6:])
        miss = [f for f in fields if f not in assigned]
        if miss:
            probs.append('fields %s are not carried over from the source (the ownership flag decides between free() and release_table)' % miss)
        srcnull = [e for _, e in ma.elements() if e['k'] == 'BinaryOperator' and e['op'] == '=' and ma.render(ma.N(e['c'][0])) == 'rhs._p'
                   and ma.strip_all_casts(e['c'][1]).get('v') == 0]
        if not srcnull:
            probs.append('the source is not nulled (two holders of one buffer)')
    if probs:
        run.violated('TABLETS', 'move assignment', ma.where(), 'Face::Table::operator=(Table&&): ' + '; '.join(probs))
    else:
        run.held('TABLETS', 'move assignment', ma.where(), 'release() then %s' % ('re-construction through the move constructor' if via_ctor else 'field-wise move of all fields'))
    # --- decompress: release() before _p is replaced; _compressed set with it; on error the buffer is freed and _p null
    dc = fx.one(T + '::decompress')
    stores = [e for _, e in dc.elements() if e['k'] == 'BinaryOperator' and e['op'] == '=' and dc.render(dc.N(e['c'][0])) == 'this->_p']
    r = calls_in(dc, T + '::release')
    if not stores:
        raise AnalysisBroken('Face::Table::decompress: store to _p not found')
    sb = dc.block_of[stores[0]['i']]
    if r and dc.block_of[r[0]['i']] in dc.dominators()[sb] and (dc.block_of[r[0]['i']] != sb or dc.pos_of[r[0]['i']] < dc.pos_of[stores[0]['i']]):
        run.held('TABLETS', 'decompress releases before replacing', dc.loc(r[0]), 'release() dominates _p = uncompressed_table')
    else:
        run.violated('TABLETS', 'decompress releases before replacing', dc.loc(stores[0]), 'Face::Table::decompress overwrites _p without first releasing '
                     'the borrowed compressed table')
    flag = [e for _, e in dc.elements() if e['k'] == 'BinaryOperator' and e['op'] == '=' and dc.render(dc.N(e['c'][0])) == 'this->_compressed'
            and dc.strip_all_casts(e['c'][1]).get('v') == 1]
    # release() chooses the deallocator from _compressed (free for an owned buffer, release_table for a borrowed one): the flag
    # must still describe the OLD buffer when release() runs
    early = [f for f in flag if r and not (dc.block_of[r[0]['i']] in dc.dominators()[dc.block_of[f['i']]] and
                                           (dc.block_of[r[0]['i']] != dc.block_of[f['i']] or dc.pos_of[r[0]['i']] < dc.pos_of[f['i']]))]
    if early:
        run.violated('TABLETS', 'decompress releases with the old ownership flag', dc.loc(early[0]), 'Face::Table::decompress sets _compressed = true before release() has run: '
                     'release() then frees the application\'s borrowed table with free() instead of handing it back through release_table')
    elif flag and r:
        run.held('TABLETS', 'decompress releases with the old ownership flag', dc.loc(r[0]), 'release() precedes _compressed = true on every path')
    nonnull_stores = [e for e in stores if not dc.is_null(e['c'][1])] or stores
    pdom = dc.postdominators()
    if flag and all(any(dc.block_of[f_['i']] == dc.block_of[st_['i']] or dc.block_of[f_['i']] in pdom[dc.block_of[st_['i']]] for f_ in flag) for st_ in nonnull_stores):
        run.held('TABLETS', 'decompress marks ownership', dc.loc(flag[0]), '_compressed = true together with the new _p')
    else:
        run.violated('TABLETS', 'decompress marks ownership', dc.loc(stores[0]), 'the decompressed buffer is installed without _compressed = true: it would be '
                     'handed to the application\'s release_table instead of free()')
    # on error: free(uncompressed_table) and the variable nulled before the store
    fre = calls_in(dc, 'free')
    okf = False
    for e in fre:
        fs = dom.facts_at(dc, e['i'])
        if any('e.operator bool()' in f[0] and f[1] == '!=' for f in fs) or any(f[0].startswith('e') and f[1] == '!=' for f in fs):
            okf = True
    if okf:
        run.held('TABLETS', 'decompress frees on error', dc.loc(fre[0]), 'free(uncompressed_table) under the error state')
    else:
        run.violated('TABLETS', 'decompress frees on error', dc.where(), 'the output buffer is not freed when decompression failed')


# ---------------------------------------------------------------------------------------- OWNFIELD
# fields whose ownership is not visible as "field = allocator(...)": (class, field) -> reason, dealloc owner
MANUAL_OWNED = {
    ('graphite2::Face', 'm_pFileFace'): 'FileFace created by gr_make_file_face and handed over with takeFileFace()',
    ('graphite2::FeatureRef', 'm_nameValues'): 'settings array allocated in readFeats and passed to the constructor',
    ('graphite2::NameTable', 'm_table'): 'copy of the name table made in the constructor through a local',
    ('graphite2::SillMap::LangFeaturePair', 'm_pFeatures'): 'Features allocated in readSill and passed to the constructor',
}
# fields that are allocator-assigned but deliberately not freed by their own class's destructor
OWN_EXCEPTIONS = {
    'graphite2::Rule::action': 'placement-new into Pass::m_codes; destroyed by Pass::~Pass through m_codes[i].~Code()',
    'graphite2::Rule::constraint': 'placement-new into Pass::m_codes; destroyed by Pass::~Pass through m_codes[i].~Code()',
    'graphite2::Pass::m_codes': 'array obtained with gralloc then constructed in place; ~Pass runs the element destructors and free()s it',
    'graphite2::sparse::(anonymous union)::values': 'freed through the union\'s map member alias in ~sparse (same storage)',
}


def discover_owned(fx):
    fw = field_writes(fx)
    owned = {}
    for field, ws in fw.items():
        for fn, e, kind in ws:
            if kind not in ('direct', 'init'):
                continue
            rhs = e.get('init') if e['k'] == 'Init' else (e['c'][1] if e.get('c') and len(e['c']) > 1 else None)
            if rhs is None:
                continue
            for x in fn.walk(rhs):
                if x['k'] == 'CXXNewExpr' and x.get('nplace', 0) == 0:
                    owned.setdefault(field, set()).add(fn.q)
                elif (x.get('fq') or '').split('<')[0] in ALLOC_FNS:
                    owned.setdefault(field, set()).add(fn.q)
    return owned


def _dealloc_sites(fn, fieldname, array_field=False):
    """elements of fn that deallocate this->fieldname"""
    out = []
    short = fieldname.split('::')[-1]
    for _, e in fn.elements():
        if e['k'] == 'CXXDeleteExpr':
            t = fn.render(fn.strip_all_casts(e['c'][0]))
            if t in ('this->' + short, short) or t.startswith('this->%s[' % short) and False:
                out.append(e)
        elif e['k'] in ('CallExpr',) and e.get('fq') == 'free':
            t = fn.render(fn.strip_all_casts(e['args'][0]))
            if t == 'this->' + short or t.endswith('->' + short) and t.startswith('this'):
                out.append(e)
            elif ('this->' + short) in t and '[' not in t.split('this->' + short)[1][:1]:
                out.append(e)
            elif t.startswith('this->' + short + '[') and array_field:
                out.append(e)
        elif e['k'] == 'DeleteDtor':
            pass
    return out


def ownfield(run, fx):
    owned = discover_owned(fx)
    for (cls, f), why in MANUAL_OWNED.items():
        if f == 'm_pFileFace' and 'FileFace.cpp' not in fx.raw['units']:
            continue            # GRAPHITE2_NFILEFACE: neither created nor deleted
        owned.setdefault(cls + '::' + f, set()).add('(manual row: %s)' % why)
    n = 0
    for field in sorted(owned):
        cls, short = field.rsplit('::', 1)
        inst = 'field %s' % field
        if field in OWN_EXCEPTIONS:
            run.held('OWNFIELD', inst, '', 'tabled exception: %s' % OWN_EXCEPTIONS[field], False)
            n += 1
            continue
        if '(anonymous' in cls and field not in OWN_EXCEPTIONS:
            cls = cls.rsplit('::', 1)[0]
        import re as _re
        base = _re.sub(r'<.*>$', '', cls)
        dts = [d for d in fx.fns_named(cls + '::~' + base.split('::')[-1])]
        dts = [d for d in dts if d.f.get('dtor')]
        # template classes: destructor qualified name carries the template arguments in cls
        if not dts:
            run.violated('OWNFIELD', inst, '', 'class %s allocates %s (in %s) but has no user destructor releasing it' % (cls, short, sorted(owned[field])[:2]))
            continue
        d = dts[0]
        ok, detail = _must_dealloc(fx, d, cls, short, 0)
        n += 1
        if ok:
            run.held('OWNFIELD', inst, d.where(), detail)
        else:
            run.violated('OWNFIELD', inst, d.where(), '%s::%s is allocated (%s) but %s: memory stays allocated after the object is destroyed'
                         % (cls, short, sorted(owned[field])[:2], detail))
    return n


def _must_dealloc(fx, d, cls, short, depth):
    rec = fx.raw['records'].get(cls)
    arr = bool(rec and any(f['n'] == short and 'extent' in f for f in rec['fields']))
    sites = _dealloc_sites(d, short, arr)
    pass_blocks = {d.block_of[e['i']] for e in sites}
    # helper methods of the same class called on this that deallocate the field on all their paths
    for e in calls_in(d):
        if e['k'] == 'CXXMemberCallExpr' and (e.get('fq') or '').startswith(cls + '::') and depth < 2:
            ob = d.render(d.N(e['obj'])) if e.get('obj') is not None else ''
            if ob != 'this':
                continue
            for h in fx.fns_named(e['fq']):
                ok, _ = _must_dealloc(fx, h, cls, short, depth + 1)
                if ok:
                    pass_blocks.add(d.block_of[e['i']])
    if not pass_blocks:
        return False, 'no deallocation of %s in %s' % (short, d.q)
    if arr:
        return True, 'array of owned pointers: every element freed in a constant-bound loop of %s' % d.q.split('::')[-1]
    # bypass allowed on edges that establish this->field == 0, or a tabled ownership flag being false
    bypass = dom.edges_with(d, lambda f: (f[0] in ('this->' + short, short) and f[1] == '==' and f[2] == '0') or
                            (f[0] == 'this->_own' and f[1] == '==' and f[2] == '0') or
                            (f[0] == 'this->_glyph_loader' and short in ('_glyphs',) and False))
    if _all_paths_pass(d, d.entry, pass_blocks, bypass):
        return True, '%s freed on every path of %s (%d site(s); bypass only when it is null)' % (short, d.q.split('::')[-1], len(pass_blocks))
    return False, 'a path through %s leaves %s without freeing it' % (d.q, short)


def overwrite(run, fx):
    """OWNFIELD, second half: an owning pointer field is not given a second fresh allocation on a path on which it already received one
    (in the same function) unless the first was released in between: the first object -- and every table its loader still borrows --
    would be lost.  (Fields filled once by a read* step after construction are the norm here; what is decided is the double store.)"""
    from .util import reaches_avoiding
    fw = field_writes(fx)
    n = 0
    for field, ws in sorted(fw.items()):
        sites = {}
        for fn, e, kind in ws:
            if kind != 'direct' or e['k'] == 'Init':
                continue
            rhs = e['c'][1] if e.get('c') and len(e['c']) > 1 else None
            if rhs is None:
                continue
            if fn.strip(e['c'][0])['k'] != 'MemberExpr':
                continue                  # an element of an array-valued field (Locale2Lang's 26 x 26 lists): a different cell each time
            if any((x['k'] == 'CXXNewExpr' and x.get('nplace', 0) == 0) or (x.get('fq') or '').split('<')[0] in ALLOC_FNS for x in fn.walk(rhs)):
                if not any((x.get('fq') or '') == 'realloc' for x in fn.walk(rhs)):
                    sites.setdefault(fn.key, (fn, []))[1].append(e)
        for key, (fn, es) in sites.items():
            es = list({e['i']: e for e in es}.values())
            if len(es) < 2:
                continue
            n += 1
            short = field.split('::')[-1]
            dl = _dealloc_sites(fn, field, False)
            bad = None
            for a in es:
                for b in es:
                    if a is b:
                        continue
                    if reaches_avoiding(fn, a, b, avoid=dl):
                        if not any(f[0] in ('this->' + short, short) and f[1] == '==' and f[2] == '0' for f in dom.facts_at(fn, b['i'])):
                            bad = (a, b)
            inst = '%s is not allocated twice on one path of %s' % (field.split('graphite2::')[-1], fn.q.split('graphite2::')[-1])
            if bad:
                run.violated('OWNFIELD', inst, fn.loc(bad[1]), '%s receives a second fresh allocation (line %s) on a path on which it was already given one (line %s) and not released: '
                             'the first object is orphaned -- never deleted, and whatever it borrowed is never given back' % (field, bad[1]['ln'], bad[0]['ln']))
            else:
                run.held('OWNFIELD', inst, fn.where(), '%d allocation stores, none reachable from another without a release' % len(es))
    return n


def reallocfail(run, fx):
    """OWNFIELD: realloc returns null and leaves the old block alive when it fails (or, in Pass::readRules, the `: 0` arm of the
    conditional takes its place).  For every realloc in src/: the result is tested for null, and on the null arm every path to the
    function's exit frees the OLD block -- through the argument itself when the result went somewhere else, or through a local that
    was set to it before the call -- or does not return at all (abort).  Writing the result straight over the only pointer to the
    block and returning on null leaks the block on a failed load."""
    n = 0
    for fn in fx.all_fns():
        if not fn.file.startswith('src/') or fn.f.get('implicit'):
            continue
        for r in calls_in(fn, 'realloc'):
            if not r.get('args'):
                continue
            n += 1
            P = fn.render(fn.strip_all_casts(fn.N(r['args'][0])))
            inst = 'a failed realloc in %s @%s frees the old block' % (fn.q.split('graphite2::')[-1].split('<')[0], r['ln'])
            # where the result goes: the enclosing declaration or assignment
            D = None
            for _, e in fn.elements():
                if e['k'] == 'DeclStmt':
                    for x in e.get('decls', []):
                        if x.get('init') is not None and any(w.get('i') == r['i'] for w in fn.walk(x['init'])):
                            D = x.get('n')
                elif e['k'] == 'BinaryOperator' and e['op'] == '=' and any(w.get('i') == r['i'] for w in fn.walk(e['c'][1])):
                    D = fn.render(fn.strip(e['c'][0]))
            if D is None:
                run.broken('OWNFIELD', inst, 'the destination of the realloc result was not recognised', fn.loc(r))
                continue
            old = set()
            if D != P:
                old.add(P)
            doms = fn.dominators()
            for _, e in fn.elements():
                if e['k'] == 'DeclStmt' and (fn.block_of[e['i']] in doms[fn.block_of[r['i']]]):
                    for x in e.get('decls', []):
                        if x.get('init') is not None and fn.render(fn.strip_all_casts(fn.N(x['init']))) == P and \
                                (fn.block_of[e['i']] != fn.block_of[r['i']] or fn.pos_of[e['i']] < fn.pos_of[r['i']]):
                            old.add(x.get('n'))
            nulls = dom.edges_with(fn, lambda f: f[0] == D and f[1] == '==' and f[2] == '0')
            reach = fn.reachable_from(fn.block_of[r['i']]) | {fn.block_of[r['i']]}
            nulls = [(b, i_) for b, i_ in nulls if b in reach]
            if not nulls:
                run.violated('OWNFIELD', inst, fn.loc(r), 'the result of realloc (`%s`) is never tested for null in %s' % (D, fn.q))
                continue
            frees = {fn.block_of[e['i']] for e in calls_in(fn, 'free') if e.get('args') and fn.render(fn.strip_all_casts(fn.N(e['args'][0]))) in old}
            frees |= {fn.block_of[e['i']] for _, e in fn.elements() if e['k'] in CALL_KINDS and (e.get('fq') or '').split('::')[-1] == 'abort'}
            nonnull = set(dom.edges_with(fn, lambda f: f[0] == D and f[1] == '!=' and f[2] == '0'))
            nullset = set(nulls)
            # walk from the call: the non-null arms are the success paths; a path that took a null arm must free before the exit
            bad, seen, st = [], set(), [(fn.block_of[r['i']], False)]
            while st:
                b, onnull = st.pop()
                if (b, onnull) in seen:
                    continue
                seen.add((b, onnull))
                if b in frees and (onnull or b != fn.block_of[r['i']]):
                    continue
                if b == fn.exit or not [x for x in fn.blocks[b]['succ'] if x is not None]:
                    if onnull:
                        bad.append((b, 0))
                    continue
                for i_, s_ in enumerate(fn.blocks[b]['succ']):
                    if s_ is None or (b, i_) in nonnull:
                        continue
                    st.append((s_, onnull or (b, i_) in nullset))
            if bad:
                run.violated('OWNFIELD', inst, fn.loc(r), 'when `%s` is null after `%s`, a path reaches the end of %s without freeing the old block (%s): realloc leaves it allocated when it '
                             'fails, and nothing points to it any more' % (D, fn.render(r)[:60], fn.q, ' / '.join(sorted(old)) or 'no name for it is left: the result overwrote `%s`' % P))
            else:
                run.held('OWNFIELD', inst, fn.loc(r), 'null result -> %s on every path' % ('free(%s)' % '/'.join(sorted(old)) if old else 'abort'))
    if n < 3:
        run.broken('OWNFIELD', 'failed realloc frees the old block', 'expected the 3 realloc sites (Code::Code, Pass::readRules, Vector::reserve), found %d' % n)


def nestedfree(run, fx):
    """OWNFIELD for arrays of owned blocks: when a destructor frees the ELEMENTS of a member array and then the array (CachedCmap::m_blocks,
    the glyph and box tables of GlyphCache, Segment's slot blocks), any other function that frees the array must free the elements too:
    giving up only the index orphans every block hanging from it (an early exit of a constructor after some blocks were filled)."""
    n, bad = 0, []
    for dt in fx.all_fns():
        if not dt.q.split('::')[-1].startswith('~') or not dt.file.startswith('src/') or dt.f.get('implicit'):
            continue
        elems, whole = set(), set()
        for _, e in dt.elements():
            a = None
            if e['k'] in CALL_KINDS and (e.get('fq') or '') == 'free' and e.get('args'):
                a = dt.strip_all_casts(dt.N(e['args'][0]))
            elif e['k'] == 'CXXDeleteExpr' and e.get('c'):
                a = dt.strip_all_casts(dt.N(e['c'][0]))
            if a is None:
                continue
            if a['k'] == 'ArraySubscriptExpr':
                b_ = dt.strip_all_casts(dt.N(a['c'][0]))
                if b_['k'] == 'MemberExpr' and b_.get('dk') == 'Field' and dt.strip_all_casts(dt.N(a['c'][1])).get('v') is None:
                    elems.add(b_['d'])
            elif a['k'] == 'MemberExpr' and a.get('dk') == 'Field':
                whole.add(a['d'])
        for F_ in elems & whole:
            n += 1
            cls = dt.f.get('cls')
            for fn in fx.all_fns():
                if fn.f.get('cls') != cls or fn is dt or fn.f.get('implicit') or fn.q.split('::')[-1].startswith('~'):
                    continue
                fw = [e for e in calls_in(fn, 'free') if e.get('args') and fn.strip_all_casts(fn.N(e['args'][0])).get('d') == F_]
                fe = [e for e in calls_in(fn, 'free') if e.get('args') and fn.strip_all_casts(fn.N(e['args'][0]))['k'] == 'ArraySubscriptExpr'
                      and fn.strip_all_casts(fn.N(fn.strip_all_casts(fn.N(e['args'][0]))['c'][0])).get('d') == F_]
                if fw and not fe:
                    # GlyphCache's constructor gives its fresh index up when not even glyph 0 could be loaded: nothing hangs from it yet
                    if fn.q.endswith('GlyphCache::GlyphCache') and any('glyph(0)' in f_[0] and f_[1] == '==' and f_[2] == '0' for f_ in dom.facts_at(fn, fw[0]['i'])):
                        continue
                    bad.append((fn, fw[0], F_, dt))
    inst = 'an array of owned blocks is given up only together with its blocks'
    if n < 1:
        run.broken('OWNFIELD', inst, 'no destructor that frees the elements of a member array and then the array was found (CachedCmap::m_blocks confirmed)')
    elif bad:
        fn, e, F_, dt = bad[0]
        run.violated('OWNFIELD', inst, fn.loc(e), '%s frees %s but not the blocks it points to, which %s frees one by one: every block already hanging from the index is orphaned (and the '
                     'destructor, finding the index null, frees nothing)' % (fn.q, F_.split('::')[-1], dt.q))
    else:
        run.held('OWNFIELD', inst, '', '%d such member array(s); only their destructors free the index' % n)


def poolhead(run, fx):
    """OWNFIELD for the preloaded glyph and box pools: ~GlyphCache releases element 0 of `_glyphs` / `_boxes` when the loader is gone
    (the element points at the whole pool).  So wherever the constructor gives a pool up itself (`delete [] glyphs`, `free(boxes)` on a
    failed preload), the published head element is nulled in the same straight-line region -- otherwise the destructor frees the pool a
    second time (and Face::readGlyphs's `glyph(0) == 0` failure test no longer sees the failure)."""
    ct = [f for f in fx.fns_named('graphite2::GlyphCache::GlyphCache') if not f.f.get('implicit')][0]
    dt = fx.one('graphite2::GlyphCache::~GlyphCache')

    def head_released(fn):
        out = {}
        for _, e in fn.elements():
            tgt = None
            if e['k'] == 'CXXDeleteExpr':
                tgt, kind = fn.strip_all_casts(fn.N(e['c'][0])), 'delete'
            elif e['k'] == 'CallExpr' and e.get('fq') == 'free' and e.get('args'):
                tgt, kind = fn.strip_all_casts(fn.N(e['args'][0])), 'free'
            if tgt is not None and tgt['k'] == 'ArraySubscriptExpr' and fn.strip_all_casts(fn.N(tgt['c'][1])).get('v') == 0:
                b_ = fn.strip_all_casts(fn.N(tgt['c'][0]))
                if b_['k'] == 'MemberExpr':
                    out[kind] = b_['d']
        return out
    heads = head_released(dt)
    if set(heads) != {'delete', 'free'}:
        run.broken('OWNFIELD', 'pool heads', '~GlyphCache is expected to release _glyphs[0] with delete[] and _boxes[0] with free, found %s' % heads, dt.where())
        return
    n = 0
    for _, e in ct.elements():
        kind = arg = None
        if e['k'] == 'CXXDeleteExpr' and e.get('arr'):
            kind, arg = 'delete', ct.strip_all_casts(ct.N(e['c'][0]))
        elif e['k'] == 'CallExpr' and e.get('fq') == 'free' and e.get('args'):
            kind, arg = 'free', ct.strip_all_casts(ct.N(e['args'][0]))
        if kind is None or arg['k'] != 'DeclRefExpr' or arg.get('vid') is None:
            continue
        n += 1
        F_ = heads[kind]
        inst = 'the constructor nulls %s[0] where it gives up the pool `%s`' % (F_.split('::')[-1], ct.render(arg))
        blk = ct.block_of[e['i']]
        nulls = [x for x in ct.blocks[blk]['el'] if x['k'] == 'BinaryOperator' and x['op'] == '=' and ct.is_null(x['c'][1])
                 and ct.strip(x['c'][0])['k'] == 'ArraySubscriptExpr' and ct.strip_all_casts(ct.N(ct.strip(x['c'][0])['c'][1])).get('v') == 0
                 and ct.strip_all_casts(ct.N(ct.strip(x['c'][0])['c'][0])).get('d') == F_]
        if nulls:
            run.held('OWNFIELD', inst, ct.loc(e), 'head element nulled next to the release')
        else:
            run.violated('OWNFIELD', inst, ct.loc(e), 'GlyphCache::GlyphCache releases the pool `%s` (%s) without storing null into %s[0], which still points at it: ~GlyphCache releases %s[0] again '
                         'when the face is destroyed (double free), and the `glyph(0) == 0` test of the failed preload no longer fires' % (ct.render(arg), ct.render(e), F_.split('::')[-1], F_.split('::')[-1]))
    if n < 2:
        run.broken('OWNFIELD', 'pool heads', 'expected the two pool releases of the failed preload in GlyphCache::GlyphCache, found %d' % n, ct.where())


def freenull(run, fx):
    poolhead(run, fx)
    nestedfree(run, fx)
    reallocfail(run, fx)
    """OWNFIELD, third part: a member function other than the destructor that frees one of the object's own buffers leaves the field
    pointing somewhere else (null, or a replacement) on every path to its exit.  Such functions run while the object lives on --
    Silf::releaseBuffers runs on the reject path of readGraphite AND again from ~Silf, Face::Table::release from every owner -- so a
    field left dangling is freed a second time."""
    n = 0
    for fn in fx.all_fns():
        if not fn.f.get('cls') or fn.f.get('dtor') or fn.f.get('implicit') or not fn.file.startswith('src/') or fn.q.split('::')[-1].startswith('~'):
            continue
        for _, e in fn.elements():
            t = None
            if e['k'] == 'CXXDeleteExpr':
                t = fn.render(fn.strip_all_casts(e['c'][0]))
            elif e['k'] == 'CallExpr' and e.get('fq') == 'free' and e.get('args'):
                t = fn.render(fn.strip_all_casts(e['args'][0]))
            if not t or not t.startswith('this->'):
                continue
            n += 1
            stores = [u for _, u in fn.elements() if u['k'] == 'BinaryOperator' and u['op'] == '=' and fn.render(fn.N(u['c'][0])) == t]
            sb = {}
            for u in stores:
                sb.setdefault(fn.block_of[u['i']], []).append(fn.pos_of[u['i']])
            b0, p0 = fn.block_of[e['i']], fn.pos_of[e['i']]
            esc = False
            if not any(p > p0 for p in sb.get(b0, [])):
                seen, st = set(), list(fn.succs(b0))
                while st:
                    b = st.pop()
                    if b in seen or b in sb:
                        continue
                    seen.add(b)
                    if b == fn.exit:
                        esc = True
                        break
                    st.extend(fn.succs(b))
            inst = '%s does not leave %s dangling' % (fn.q.split('graphite2::')[-1], t.replace('this->', ''))
            if esc:
                run.violated('OWNFIELD', inst, fn.loc(e), '%s frees %s and can return with the field still holding the freed pointer: the object lives on (this is not the '
                             'destructor), so the next release -- the destructor at the latest -- frees it again' % (fn.q, t))
            else:
                run.held('OWNFIELD', inst, fn.loc(e), 'the field is re-assigned on every path after the release')
    if n < 8:
        run.broken('OWNFIELD', 'release sites outside destructors', 'only %d found (15 confirmed)' % n)


# ---------------------------------------------------------------------------------------- OWNLOCAL
OWNLOCAL_EXCEPTIONS = {
    ('graphite2::GlyphCache::GlyphCache', 'boxes'):
        'ownership passes to _boxes[0] in the first iteration of the box loop (through the alias currbox); the loop runs at least '
        'once because _glyphs != 0 implies _num_glyphs >= 1; the failure branch free()s it',
}


def _alloc_failure_blocks(fn):
    """blocks reachable only when some pointer just obtained from an allocator tested null"""
    names = set()
    for _, e in fn.elements():
        if e['k'] == 'DeclStmt':
            for d in e['decls']:
                if d.get('init') is not None and any(x['k'] == 'CXXNewExpr' or (x.get('fq') or '').split('<')[0] in ALLOC_FNS for x in fn.walk(d['init'])):
                    names.add(d['n'])
        if e['k'] == 'BinaryOperator' and e['op'] == '=' and any(x['k'] == 'CXXNewExpr' or (x.get('fq') or '').split('<')[0] in ALLOC_FNS for x in fn.walk(e['c'][1])):
            names.add(fn.render(fn.N(e['c'][0])))
    out = set()
    for b in fn.blocks:
        for f in dom.facts_at_block(fn, b):
            if f[0] in names and f[1] == '==' and f[2] == '0':
                out.add(b)
    fn.__dict__['_alloc_fail_edges'] = dom.edges_with(fn, lambda f: f[0] in names and f[1] == '==' and f[2] == '0')
    return out

def released_fields(fx):
    """qualified names of the fields that some function releases (delete / free / a release call on the member itself): a pointer stored
    into any other field is only borrowed (Face::m_appFaceHandle is the application's handle; Face::m_pFileFace is deleted by ~Face)"""
    if hasattr(fx, '_released_fields'):
        return fx._released_fields
    out = set()
    for fn in fx.all_fns():
        if not fn.file.startswith('src/'):
            continue
        for _, e in fn.elements():
            a = None
            if e['k'] == 'CXXDeleteExpr' and e.get('c'):
                a = e['c'][0]
            elif e['k'] in CALL_KINDS and (e.get('fq') or '').split('::')[-1] in ('free', 'fclose', 'realloc') and e.get('args'):
                a = e['args'][0]
            if a is None:
                continue
            for x in fn.walk(a):
                if x['k'] == 'MemberExpr' and x.get('dk') == 'Field':
                    out.add(x['d'])
                    break
    fx._released_fields = out
    return out


def takes_ownership(fx, callee_key, j, depth=0):
    """does the callee keep, free or hand on the pointer it receives as argument j?  (summary over its own facts; a callee
    without facts -- free, realloc, fclose, qsort -- is assumed to take it: never a reason for an alarm)"""
    memo = fx.__dict__.setdefault('_takes', {})
    if (callee_key, j) in memo:
        return memo[(callee_key, j)]
    raw = fx.raw['functions'].get(callee_key)
    if raw is None or not raw.get('blocks'):
        return True
    memo[(callee_key, j)] = False          # cycle guard
    f = fx.fn(callee_key)
    ps = f.f.get('params') or []
    if j >= len(ps):
        memo[(callee_key, j)] = True
        return True
    t = (ps[j].get('t') or '')
    if '*' not in t or t.rstrip().endswith('&'):
        res = '*' in t                       # T *& : may re-seat / keep; a by-value object or a reference to one is only read
        memo[(callee_key, j)] = res
        return res
    vids = {ps[j]['vid']}

    def isv(x):
        x = f.strip_all_casts(x)
        return x['k'] == 'DeclRefExpr' and x.get('vid') in vids
    res = False
    for _round in range(2):                  # second round: local aliases of the parameter
        for _, u in f.elements():
            k = u['k']
            if k == 'DeclStmt':
                for d in u['decls']:
                    if d.get('init') is not None and d.get('dk') == 'Var' and '*' in (d.get('t') or '') and isv(d['init']):
                        vids.add(d['vid'])
            elif k == 'ReturnStmt' and u.get('c') and isv(u['c'][0]):
                res = True
            elif k == 'CXXDeleteExpr' and isv(u['c'][0]):
                res = True
            elif k == 'BinaryOperator' and u['op'] == '=' and isv(u['c'][1]):
                l = f.strip(u['c'][0])
                if l['k'] == 'DeclRefExpr' and l.get('dk') in ('Var', 'ParmVar') and not (l.get('dt') or l.get('t') or '').rstrip().endswith('&'):
                    if l.get('vid') is not None:
                        vids.add(l['vid'])
                else:
                    fld = [x.get('d') for x in f.walk(u['c'][0]) if x['k'] == 'MemberExpr' and x.get('dk') == 'Field']
                    if not fld or fld[0] in released_fields(fx) or not f.file.startswith('src/'):
                        res = True           # kept in a field the class releases (or in something that is not a plain member)
            elif k == 'Init' and u.get('init') is not None and isv(u['init']):
                if u.get('field') in released_fields(fx) or not u.get('field'):
                    res = True
            elif k == 'CXXNewExpr' and u.get('place') and any(p_ is not None and isv(p_) for p_ in u['place']):
                res = True
            elif k in CALL_KINDS:
                args = (u.get('args') if 'args' in u else u.get('c')) or []
                for jj, a in enumerate(args):
                    if a is None or not isv(a):
                        continue
                    key = u.get('fm')
                    if key not in fx.raw['functions']:
                        key = '%s@%s' % (key, f.f.get('unit'))
                    if key not in fx.raw['functions']:
                        res = True               # external or unresolved callee
                    elif depth < 4 and takes_ownership(fx, key, jj, depth + 1):
                        res = True
    memo[(callee_key, j)] = res
    return res


def fresh_returning(fx):
    """functions every return of which hands back a fresh allocation (new / allocator / another such function) or null: their
    caller owns the result.  Fixpoint over the resolved call graph; pointer-returning functions only."""
    if hasattr(fx, '_fresh_fns'):
        return fx._fresh_fns
    fresh = set()
    cands = [f for f in fx.all_fns() if '*' in (f.f.get('ret') or '') and f.blocks and not f.f.get('implicit')]
    changed = True
    while changed:
        changed = False
        for f in cands:
            if f.q in fresh:
                continue
            rets = [e for _, e in f.elements() if e['k'] == 'ReturnStmt' and e.get('c')]
            if not rets:
                continue
            ok, some = True, False
            for r in rets:
                x = f.strip_all_casts(f.deref(r['c'][0]))
                if x['k'] == 'CXXNewExpr' and x.get('nplace', 0) == 0:
                    some = True
                elif (x.get('fq') or '').split('<')[0] in ALLOC_FNS or (x.get('fq') in fresh and x['k'] in CALL_KINDS):
                    some = True
                elif f.is_null(x):
                    pass
                else:
                    ok = False
            if ok and some:
                fresh.add(f.q)
                changed = True
    fx._fresh_fns = fresh
    return fresh


def _returns_arg(fn, r, vids):
    """r is a call that is handed the object behind one of the pointers (`f(.., *p, ..)`, `f(.., p[i], ..)`) and returns a pointer: the
    result may be the address of that object (GlyphCache::Loader::read_glyph returns &glyph), so a plain local that receives it is an
    alias of the allocation, not a hand-over"""
    if r['k'] not in CALL_KINDS or '*' not in (r.get('t') or ''):
        return False
    for a in ((r.get('args') if 'args' in r else r.get('c')) or []):
        if a is None:
            continue
        x = fn.strip_all_casts(fn.N(a))
        if x['k'] in ('UnaryOperator', 'ArraySubscriptExpr') and (x['k'] != 'UnaryOperator' or x.get('op') == '*'):
            b = fn.strip_all_casts(fn.N(x['c'][0]))
            if b['k'] == 'DeclRefExpr' and b.get('vid') in vids:
                return True
    return False


def ownlocal(run, fx, reach_q):
    n = 0
    fresh = fresh_returning(fx)
    for fn in fx.all_fns():
        if fn.f.get('implicit'):
            continue
        allocs = []
        for _, e in fn.elements():
            if e['k'] == 'DeclStmt':
                for dd in e['decls']:
                    if dd.get('init') is None or dd.get('dk') != 'Var':
                        continue
                    init = fn.strip_all_casts(dd['init'])
                    isalloc = (init['k'] == 'CXXNewExpr' and init.get('nplace', 0) == 0) or \
                              ((init.get('fq') or '').split('<')[0] in ALLOC_FNS) or \
                              (init['k'] in CALL_KINDS and init.get('fq') in fresh)
                    if isalloc and '*' in dd.get('t', ''):
                        allocs.append((e, dd))
            elif e['k'] == 'BinaryOperator' and e['op'] == '=' and fn.is_root(e['i']) or (e['k'] == 'BinaryOperator' and e['op'] == '='):
                # a local that receives a fresh allocation by assignment (`T *p = 0; ... p = new T` / `a = p = clone()`): the
                # innermost assignment whose right-hand side IS the allocation
                l = fn.strip(e['c'][0])
                r = fn.strip_all_casts(e['c'][1])
                isalloc = (r['k'] == 'CXXNewExpr' and r.get('nplace', 0) == 0) or ((r.get('fq') or '').split('<')[0] in ALLOC_FNS) or \
                          (r['k'] in CALL_KINDS and r.get('fq') in fresh)
                if isalloc and l['k'] == 'DeclRefExpr' and l.get('dk') == 'Var' and l.get('vid') is not None and '*' in (l.get('t') or ''):
                    if not any(l.get('vid') == dd_['vid'] for _, dd_ in allocs):
                        allocs.append((e, {'n': l['d'].split('::')[-1], 'vid': l['vid'], 't': l.get('t')}))
        for e, dd in allocs:
            n += 1
            inst = '%s local %s@%s' % (fn.q, dd['n'], e['ln'])
            vid = dd['vid']
            sinks = set()
            sink_elems = set()
            void_edges = set()
            vids = {vid}
            # plain local / parameter copies of the pointer are aliases, not hand-overs: a sink through any of them counts
            for _r in range(2):
                for _, u in fn.elements():
                    if u['k'] == 'BinaryOperator' and u['op'] == '=':
                        l = fn.strip(u['c'][0])
                        r = fn.strip_all_casts(u['c'][1])
                        while r['k'] == 'BinaryOperator' and r['op'] == '=':
                            r = fn.strip(r['c'][0])
                        if r['k'] == 'DeclRefExpr' and r.get('vid') in vids and l['k'] == 'DeclRefExpr' and l.get('dk') in ('Var', 'ParmVar') \
                                and l.get('vid') is not None and not (l.get('dt') or l.get('t') or '').rstrip().endswith('&'):
                            vids.add(l['vid'])
                    elif u['k'] == 'DeclStmt':
                        for d_ in u['decls']:
                            if d_.get('init') is not None and d_.get('dk') == 'Var' and '*' in (d_.get('t') or ''):
                                r = fn.strip_all_casts(d_['init'])
                                if r['k'] == 'DeclRefExpr' and r.get('vid') in vids:
                                    vids.add(d_['vid'])
                                elif _returns_arg(fn, r, vids) and not (d_.get('t') or '').rstrip().endswith('&'):
                                    vids.add(d_['vid'])
                    if u['k'] == 'BinaryOperator' and u['op'] == '=':
                        l = fn.strip(u['c'][0])
                        r = fn.strip_all_casts(u['c'][1])
                        if l['k'] == 'DeclRefExpr' and l.get('dk') == 'Var' and l.get('vid') is not None and '*' in (l.get('t') or '') \
                                and not (l.get('dt') or l.get('t') or '').rstrip().endswith('&') and _returns_arg(fn, r, vids):
                            vids.add(l['vid'])

            def isv(x):
                x = fn.strip_all_casts(x)
                return x['k'] == 'DeclRefExpr' and x.get('vid') in vids

            def rvalue_use(x):
                """the pointer itself is used as a value somewhere in expression x (not merely assigned to inside it)"""
                x = fn.strip(x)
                if x['k'] == 'BinaryOperator' and x['op'] == '=':
                    return rvalue_use(x['c'][1])
                return any(isv(y) for y in fn.walk(x))
            for _, u in fn.elements():
                k = u['k']
                uses = False
                if k == 'ReturnStmt' and u.get('c') and any(isv(x) for x in fn.walk(u['c'][0])):
                    uses = True
                elif k == 'CXXDeleteExpr' and isv(u['c'][0]):
                    uses = True
                elif k in CALL_KINDS:
                    args = (u.get('args') if 'args' in u else u.get('c')) or []
                    for jj, a in enumerate(args):
                        if a is None or not any(isv(x) for x in fn.walk(a)):
                            continue
                        key0 = u.get('fm')
                        if key0 not in fx.raw['functions']:
                            key0 = '%s@%s' % (key0, fn.f.get('unit'))
                        if not isv(a):
                            # an expression built from the pointer (p + n, &p->x, p[i]): a sink unless the callee is known only to read it
                            if key0 not in fx.raw['functions'] or takes_ownership(fx, key0, jj):
                                uses = True
                            continue
                        key = u.get('fm')
                        if key not in fx.raw['functions']:
                            key = '%s@%s' % (key, fn.f.get('unit'))
                        if key not in fx.raw['functions'] or takes_ownership(fx, key, jj if not (u['k'] == 'CXXOperatorCallExpr') else jj):
                            uses = True
                elif k == 'BinaryOperator' and u['op'] == '=' and rvalue_use(u['c'][1]):
                    l = fn.strip(u['c'][0])
                    if not (l['k'] == 'DeclRefExpr' and l.get('vid') in vids) or (l.get('dt') or '').rstrip().endswith('&'):
                        uses = True          # a store through a reference local reaches the object it is bound to
                        r_ = fn.strip_all_casts(u['c'][1])
                        if r_['k'] in CALL_KINDS and not isv(u['c'][1]) and not any(isv(a_) for a_ in ((r_.get('args') if 'args' in r_ else r_.get('c')) or []) if a_ is not None):
                            # `cell = f(.. *p ..)`: the pointer can only come back as the call's result (f returns the address of the object
                            # it was given, or null): on the edges where that result is null nothing was stored -- the object is still owned
                            lt = fn.render(l)
                            for (b_, i_) in dom.edges_with(fn, lambda f, lt=lt: (f[0] == lt or f[0].startswith('(' + lt + ' = ')) and f[1] == '==' and f[2] == '0'):
                                void_edges.add((b_, i_))
                elif k == 'Init' and u.get('init') is not None and any(isv(x) for x in fn.walk(u['init'])):
                    uses = True
                elif k == 'CXXNewExpr' and u.get('place') and any(p is not None and any(isv(x) for x in fn.walk(p)) for p in u['place']):
                    uses = True
                if uses:
                    sinks.add(fn.block_of[u['i']])
                    sink_elems.add(u['i'])
            ab = fn.block_of[e['i']]
            bypass = dom.edges_with(fn, lambda f: f[0] == dd['n'] and f[1] == '==' and (f[2] == '0' or f[2].startswith('this->')))      # null, or the very block a member already owns (realloc in place)
            # a sink later in the allocation's own block settles it; otherwise walk from that block
            same = False
            for _, u in fn.elements():
                if fn.block_of[u['i']] == ab and fn.pos_of[u['i']] > fn.pos_of[e['i']] and u['i'] in sink_elems:
                    same = True
            exempt = _alloc_failure_blocks(fn)
            ok = (same and not void_edges) or _all_paths_pass(fn, ab, (sinks - {ab}) if not void_edges else sinks, set(bypass) | fn.__dict__.get('_alloc_fail_edges', set()), exempt, void_edges, first=ab if void_edges else None)
            if not ok and (fn.q, dd['n']) in OWNLOCAL_EXCEPTIONS:
                run.held('OWNLOCAL', inst, fn.loc(e), 'tabled exception: %s' % OWNLOCAL_EXCEPTIONS[(fn.q, dd['n'])], False)
                continue
            if ok:
                run.held('OWNLOCAL', inst, fn.loc(e), 'freed / returned / stored / handed over on every non-exempt path (%d sink blocks)' % len(sinks))
            else:
                run.violated('OWNLOCAL', inst, fn.loc(e), 'the buffer allocated into `%s` can reach the end of %s without being freed, returned, '
                             'stored or handed over (other than on the allocation-failure branch): leaked on that exit' % (dd['n'], fn.q))
    return n


def opsflow(run, fx):
    """an entry point that takes the client's gr_face_ops hands that very struct (all of it: get_table AND release_table) to the Face;
    one that re-packs single members into a struct of its own drops release_table, and every table the face fetches is never
    given back"""
    flows = {('graphite2::Face::Face', 1)}
    changed, rounds = True, 0
    while changed and rounds < 8:
        changed = False
        rounds += 1
        for fn in fx.all_fns():
            if not fn.file.endswith(('gr_face.cpp', 'Face.cpp', 'FileFace.cpp', 'Face.h')) or not fn.blocks:
                continue
            pv = {p_['vid']: i for i, p_ in enumerate(fn.f.get('params') or [])}
            for _, e in fn.elements():
                if e['k'] not in ('CallExpr', 'CXXMemberCallExpr', 'CXXConstructExpr', 'CXXTemporaryObjectExpr', 'CXXNewExpr') or not e.get('fq'):
                    continue
                for (cq, j) in list(flows):
                    if e['fq'] != cq:
                        continue
                    args = e.get('args') if e.get('args') is not None else (e.get('c') or [])
                    if j >= len(args) or args[j] is None:
                        continue
                    a = fn.deref(args[j])
                    if a['k'] == 'UnaryOperator' and a.get('op') == '*' and a.get('c'):
                        a = fn.deref(a['c'][0])
                    if a['k'] == 'DeclRefExpr' and a.get('vid') in pv and (fn.q, pv[a['vid']]) not in flows:
                        flows.add((fn.q, pv[a['vid']]))
                        changed = True
    n = 0
    for fn in fx.all_fns():
        if not fn.file.endswith('gr_face.cpp') or not fn.q.startswith('gr_') or not fn.blocks:
            continue
        for i, p_ in enumerate(fn.f.get('params') or []):
            if 'gr_face_ops' in (p_.get('t') or ''):
                n += 1
                inst = 'client ops of %s' % fn.q
                if (fn.q, i) in flows:
                    run.held('TABLETS', inst, fn.where(), 'parameter #%d reaches Face::Face as a whole' % i)
                else:
                    run.violated('TABLETS', inst, fn.where(), '%s does not hand the client\'s gr_face_ops (parameter #%d) to the Face: at most single members of it are used, so '
                                 'the client\'s release_table never reaches the face and no table it fetches through get_table is ever released' % (fn.q, i))
    if n < 2:
        run.broken('TABLETS', 'client ops', 'expected gr_make_face_with_ops and gr_make_face_with_seg_cache_and_ops, found %d entry points with a gr_face_ops parameter' % n, '')


def codemove_exec(run, fx):
    """OWNFIELD by bounded execution (rules/ordint.py): vm::Machine::Code hands its buffer on when it is copied or assigned (the `_own`
    flag is mutable for that purpose).  The copy constructor and operator= are interpreted for an owning and a non-owning source (and,
    for operator=, an owning / non-owning / empty destination): afterwards EXACTLY ONE of the two objects owns the source's buffer when
    the source did, none when it did not; a buffer the destination owned before is freed exactly once, nothing else is."""
    from . import ordint as O
    PC = 'graphite2::vm::Machine::Code::'
    rec = fx.record('graphite2::vm::Machine::Code')
    cc = [f for f in fx.fns_named(PC + 'Code') if len(f.f.get('params') or []) == 1 and 'Code' in (f.f['params'][0].get('t') or '') and not f.f.get('implicit')]
    asg = fx.fns_named(PC + 'operator=')
    inst = 'copying / assigning a Code leaves exactly one owner of its buffer (interpreted)'
    if len(cc) != 1 or len(asg) != 1:
        run.broken('OWNFIELD', inst, 'copy constructor / operator= of vm::Machine::Code not found (%d, %d)' % (len(cc), len(asg)))
        return

    def mk(own, buf, count):
        r = O.Rec()
        for f in rec['fields']:
            r[PC + f['n']] = O.Ptr(None) if f.get('ptr') else 0
        r[PC + '_code'] = buf
        r[PC + '_data'] = buf
        r[PC + '_own'] = own
        r[PC + '_instr_count'] = count
        return r
    cases = 0
    try:
        for src_own in (True, False):
            for dst in ('ctor', 'empty', 'owning', 'borrowing'):
                sbuf, dbuf = O.It(O.Vec([1, 2, 3]), 0), O.It(O.Vec([7, 8]), 0)
                src = mk(src_own, sbuf, 3)
                freed = []
                nat = {'free': lambda I, f, e, obj, a, freed=freed: freed.append(I.rv(a[0]))}
                it = O.Interp(fx, natives=nat)
                it.MAX_STEPS = 3000
                if dst == 'ctor':
                    d = mk(False, O.Ptr(None), 0)
                    it.call(cc[0], d, [O.LV([src], 0)])
                else:
                    d = mk(dst == 'owning', dbuf if dst != 'empty' else O.Ptr(None), 2 if dst != 'empty' else 0)
                    it.call(asg[0], d, [O.LV([src], 0)])
                cases += 1
                desc = '%s source, %s' % ('owning' if src_own else 'borrowing', {'ctor': 'copy construction', 'empty': 'assignment to an empty Code', 'owning': 'assignment to a Code that owns a buffer',
                                                                              'borrowing': 'assignment to a Code that borrows its buffer'}[dst])
                owners = int(bool(d[PC + '_own'])) + int(bool(src[PC + '_own']))
                if d[PC + '_code'] is not sbuf and not (isinstance(d[PC + '_code'], O.It) and d[PC + '_code'].vec is sbuf.vec):
                    run.violated('OWNFIELD', inst, asg[0].where(), '%s: the destination does not point at the source\'s program afterwards' % desc)
                    return
                if owners != (1 if src_own else 0):
                    run.violated('OWNFIELD', inst, (cc[0] if dst == 'ctor' else asg[0]).where(), '%s: afterwards %d of the two objects own the buffer, expected %d -- %s' %
                                 (desc, owners, 1 if src_own else 0, 'nobody frees it: one heap block per pass constraint survives gr_face_destroy' if owners == 0 else 'it is freed twice'))
                    return
                if src_own and not d[PC + '_own']:
                    run.violated('OWNFIELD', inst, asg[0].where(), '%s: ownership stays with the source (a temporary that is about to die): the destination keeps a dangling pointer' % desc)
                    return
                wantfree = 1 if dst == 'owning' else 0
                if len(freed) != wantfree or (wantfree and not (isinstance(freed[0], O.It) and freed[0].vec is dbuf.vec)):
                    run.violated('OWNFIELD', inst, asg[0].where(), '%s: %d buffer(s) are freed, expected %d (the destination\'s own old buffer, nothing else)' % (desc, len(freed), wantfree))
                    return
    except (AnalysisBroken, O.Violation) as ex:
        run.broken('OWNFIELD', inst, str(getattr(ex, 'what', ex)), asg[0].where())
        return
    run.held('OWNFIELD', inst, asg[0].where(), '%d abstract executions' % cases)


def logclose(run):
    """'the library holds no allocation after everything is destroyed', for the build with tracing compiled in: a log file opened by
    gr_start_logging is closed only by gr_stop_logging (Face::setLogger deletes the json writer of the log it replaces, not the FILE
    underneath).  So gr_start_logging stops the running log first: on every path to the place where the new log is installed
    (Face::setLogger / the store to global_log) a gr_stop_logging call for the same target has been passed."""
    from .util import reaches_avoiding
    fx = run.facts('tracelog')
    fn = fx.one('gr_start_logging')
    inst = '[tracelog] gr_start_logging stops the running log before it installs a new one'
    stops = calls_in(fn, 'gr_stop_logging')
    installs = [e for e in calls_in(fn) if (e.get('fq') or '').endswith('Face::setLogger')]
    installs += [e for _, e in fn.elements() if e['k'] == 'BinaryOperator' and e['op'] == '=' and fn.render(fn.strip(e['c'][0])).endswith('global_log')
                 and not fn.is_null(e['c'][1])]
    if not installs:
        run.broken('OWNFIELD', inst, 'no Face::setLogger call / global_log store in gr_start_logging', fn.where())
        return
    entry_el = None
    for b_ in [fn.entry] + list(fn.blocks):
        if fn.blocks[b_]['el']:
            entry_el = fn.blocks[b_]['el'][0]
            if b_ == fn.entry:
                break
    bad = [e for e in installs if _reaches_from_entry(fn, e, stops)]
    if bad:
        run.violated('OWNFIELD', inst, fn.loc(bad[0]), 'gr_start_logging can install the new log at %s without having called gr_stop_logging first: the writer of the log that was running is deleted '
                     '(or overwritten) but its FILE is never closed -- one descriptor and its buffers stay allocated after gr_stop_logging and gr_face_destroy' % fn.loc(bad[0]))
    else:
        run.held('OWNFIELD', inst, fn.loc(installs[0]), '%d install site(s), each behind a gr_stop_logging call on every path' % len(installs))


def _reaches_from_entry(fn, target, avoid):
    """is `target` reachable from the function entry without passing any element of `avoid`?"""
    stop = {}
    for a in avoid:
        stop.setdefault(fn.block_of[a['i']], []).append(a)
    tb = fn.block_of[target['i']]
    seen, todo = set(), [fn.entry]
    while todo:
        b_ = todo.pop()
        if b_ is None or b_ in seen:
            continue
        seen.add(b_)
        if b_ == tb:
            order = [x['i'] for x in fn.blocks[b_]['el']]
            if not any(order.index(a['i']) < order.index(target['i']) for a in stop.get(b_, []) if a['i'] in order and target['i'] in order):
                return True
            continue
        if b_ in stop:
            continue
        todo += list(fn.blocks[b_]['succ'])
    return False


DTOR_GUARDS_OK = {
    ('graphite2::GlyphCache::~GlyphCache', '_glyph_loader'): 'glyphs and boxes are one block each when preloaded, one allocation per glyph when loaded lazily: the loader pointer tells which',
    ('graphite2::GlyphCache::~GlyphCache', '_glyphs'): 'null test of the array whose elements are released',
    ('graphite2::GlyphCache::~GlyphCache', '_boxes'): 'null test of the array whose elements are released',
    ('graphite2::CachedCmap::~CachedCmap', 'm_isBmpOnly'): 'the number of blocks',
}


def dtorguards(run, fx):
    """OWNFIELD: what a destructor releases it releases whenever it is there: the only conditions in front of a free / delete in a
    destructor are about the released member itself (a null test, the loop over its elements); a release that depends on ANOTHER
    member (`if (m_freeJustifies)` in front of the loop that frees the justification blocks: the free LIST is empty exactly when all
    records are in use) leaks whenever that member happens to say no.  Expected count of such guards: the four tabled ones."""
    import re as _re
    n, bad = 0, []
    for fn in fx.all_fns():
        if not fn.file.startswith('src/') or '~' not in fn.q or fn.f.get('implicit'):
            continue
        for _, e in fn.elements():
            a = None
            if e['k'] == 'CXXDeleteExpr' and e.get('c'):
                a = e['c'][0]
            elif e['k'] == 'CallExpr' and (e.get('fq') or '') == 'free' and e.get('args'):
                a = e['args'][0]
            if a is None:
                continue
            n += 1
            flds = {x.get('d').split('::')[-1] for x in fn.walk(a) if x['k'] == 'MemberExpr' and x.get('dk') == 'Field'}
            for f in dom.facts_at(fn, e['i']):
                txt = f[0] + ' ' + f[2]
                if '.end()' in txt or '.begin()' in txt:
                    continue                    # the loop over a member container
                sides = [f[0], f[2]]
                loc_ = [x_ for x_ in sides if 'this->' not in x_ and x_.isidentifier()]
                if loc_ and any(u_['k'] == 'UnaryOperator' and u_.get('op') in ('pre++', 'post++', 'pre--', 'post--') and fn.render(fn.strip(u_['c'][0])) == loc_[0] for _, u_ in fn.elements()):
                    continue                    # `i != _num_glyphs`: the bound of a counting loop over the member's elements
                for g in _re.findall(r'this->(\w+)', txt):
                    if g not in flds and (fn.q, g) not in DTOR_GUARDS_OK:
                        bad.append((fn, e, g, f))
    inst = 'a destructor releases a member whatever its other members say'
    if n < 30:
        run.broken('OWNFIELD', inst, 'only %d releases in destructors seen' % n)
    elif bad:
        fn, e, g, f = bad[0]
        run.violated('OWNFIELD', inst, fn.loc(e), '%s reaches `%s` only when `%s %s %s`: the release depends on the member %s, which says nothing about whether there is something to release -- when it '
                     'says no, the allocation survives the object' % (fn.q.split('graphite2::')[-1], fn.render(e)[:50], f[0], f[1], f[2], g))
    else:
        run.held('OWNFIELD', inst, '', '%d releases in destructors; guards on other members only where tabled (%d)' % (n, len(DTOR_GUARDS_OK)))


def nullleak(run, fx):
    """OWNFIELD, the mirror of FREENULL: a member function that has put a fresh allocation into one of the object's fields does not
    overwrite that field with null (or another fresh allocation) without releasing what it holds: on every path from the store of the
    allocation to a later `field = 0`, a free / delete of the field (or of the local the allocation was made into) is passed.  The
    object's destructor only sees the null."""
    from .util import reaches_avoiding
    fresh = fresh_returning(fx)
    n, bad = 0, None
    for fn in fx.all_fns():
        if not fn.f.get('cls') or fn.f.get('implicit') or not fn.file.startswith('src/') or fn.q.split('::')[-1].startswith('~'):
            continue
        els = [e for _, e in fn.elements()]
        # locals that hold a fresh allocation
        fl = {}
        for e in els:
            if e['k'] == 'DeclStmt':
                for d in e.get('decls', []):
                    if d.get('init') is not None and '*' in (d.get('t') or ''):
                        r = fn.strip_all_casts(fn.N(d['init']))
                        if (r['k'] == 'CXXNewExpr' and not r.get('nplace')) or (r.get('fq') or '').split('<')[0] in ALLOC_FNS or (r['k'] in CALL_KINDS and r.get('fq') in fresh):
                            fl[d['vid']] = d['n']
        for e in els:
            if e['k'] != 'BinaryOperator' or e.get('op') != '=':
                continue
            l = fn.strip(e['c'][0])
            if l['k'] != 'MemberExpr' or l.get('dk') != 'Field' or fn.render(fn.N(l['c'][0])) != 'this' or '*' not in (l.get('t') or ''):
                continue
            r = fn.strip_all_casts(fn.N(e['c'][1]))
            src = None
            if (r['k'] == 'CXXNewExpr' and not r.get('nplace')) or (r.get('fq') or '').split('<')[0] in ALLOC_FNS:
                src = None, fn.render(l)
            elif r['k'] == 'DeclRefExpr' and r.get('vid') in fl:
                src = r['vid'], fn.render(l)
            if src is None:
                continue
            n += 1
            ftxt = fn.render(l)
            nulls = [u for u in els if u['k'] == 'BinaryOperator' and u.get('op') == '=' and fn.render(fn.strip(u['c'][0])) == ftxt and fn.is_null(u['c'][1]) and u is not e]
            rel = []
            for u in els:
                a = None
                if u['k'] == 'CXXDeleteExpr' and u.get('c'):
                    a = u['c'][0]
                elif u['k'] == 'CallExpr' and (u.get('fq') or '') in ('free', 'realloc') and u.get('args'):
                    a = u['args'][0]
                if a is not None and any((x['k'] == 'MemberExpr' and fn.render(x) == ftxt) or (x['k'] == 'DeclRefExpr' and x.get('vid') == src[0] and src[0] is not None) for x in fn.walk(a)):
                    rel.append(u)
            for u in nulls:
                if reaches_avoiding(fn, e, u, avoid=rel):
                    bad = bad or (fn, e, u, ftxt)
    inst = 'an allocation stored into a field is released before the field is nulled'
    if n < 5:
        run.broken('OWNFIELD', inst, 'only %d stores of fresh allocations into fields seen' % n)
    elif bad:
        fn, e, u, ftxt = bad
        run.violated('OWNFIELD', inst, fn.loc(u), '%s stores a fresh allocation into %s (%s) and can reach `%s` without freeing it: the block is lost -- the destructor finds a null field and nothing '
                     'else points at it' % (fn.q.split('graphite2::')[-1], ftxt, fn.loc(e), fn.render(u)))
    else:
        run.held('OWNFIELD', inst, '', '%d stores of fresh allocations into fields; none is nulled on a path that has not released it' % n)


def cellalias(run, fx, rule='OWNFIELD'):
    """OWNFIELD, "everything is freed exactly once": the cells of an owning pointer array (a member of type T**: GlyphCache::_glyphs,
    _boxes, CachedCmap's blocks, ...) each hold their own allocation -- the destructor deletes every cell.  No assignment stores into a
    cell of such an array a value LOADED from a cell of the same array (`_glyphs[gid] = *_glyphs`): two cells would own one object and
    the destructor frees it twice.  (Reference locals bound to a cell are looked through.)  Expected instances on the tree: none; the
    stores examined are counted so that the rule cannot pass by matching nothing."""
    import re
    arrays = set()
    for q, rc in fx.raw['records'].items():
        for f in rc['fields']:
            t = (f.get('t') or '').replace('const ', '').strip()
            if re.search(r'\*\s*\*$', t):
                # ... whose class has a destructor that goes through the member (the cells are owned, not borrowed positions)
                cls = q.split('::')[-1]
                for dt in fx.fns_named(q + '::~' + cls):
                    if any(x.get('k') == 'MemberExpr' and (x.get('d') or '').endswith('::' + f['n']) for _, e_ in dt.elements() for x in dt.walk(e_)):
                        arrays.add(f['n'])
    n = 0
    bad = None
    for fn in fx.all_fns():
        for _, e in fn.elements():
            if e['k'] != 'BinaryOperator' or e.get('op') != '=':
                continue
            lhs = fn.render(fn.N(e['c'][0]), resolve=True)
            m = re.match(r'^\*?\(?this->(\w+)\)?(\[.*\])?$', lhs)
            if not m or m.group(1) not in arrays or (m.group(2) is None and not lhs.startswith('*')):
                continue
            n += 1
            rhs = fn.render(fn.strip_all_casts(fn.N(e['c'][1])), resolve=True)
            arr = m.group(1)
            if re.match(r'^\*\(?this->%s\)?$' % arr, rhs) or re.match(r'^this->%s\[.*\]$' % arr, rhs):
                bad = bad or (fn, e, lhs, rhs, arr)
    inst = 'no cell of an owning pointer array is filled from another cell of the same array'
    if n < 3:
        run.broken(rule, inst, 'expected at least 3 stores into cells of T** members (GlyphCache::_glyphs, _boxes, ...), found %d' % n, '')
    elif bad:
        fn, e, lhs, rhs, arr = bad
        run.violated(rule, inst, fn.loc(e), '%s stores `%s = %s`: two cells of %s now own the same object, and the destructor, which deletes every cell, frees it twice' % (fn.q, lhs, rhs, arr))
    else:
        run.held(rule, inst, '', '%d stores into cells of %s' % (n, sorted(arrays)))


def opscopy_exec(run, fx, rule='TABLETS'):
    """TABLETS: a table is handed back through the `release_table` the application supplied.  Face::Face keeps a copy of the caller's
    gr_face_ops, whose first member is the size of the CALLER's layout (an older client passes a shorter structure, a newer one a
    longer one).  The constructor is interpreted (rules/ordint.py; memset / memcpy as prefix operations over the members in declaration
    order, 8 bytes each) for caller sizes of 8, 16, 24, 32 and 48 bytes: afterwards get_table is the caller's whenever the caller's
    structure reaches it, release_table likewise -- a longer structure included -- and a member the caller's structure does not reach
    is null."""
    from . import ordint as O
    PF, PO = 'graphite2::Face::', 'gr_face_ops::'
    ctors = [f for f in fx.fns_named('graphite2::Face::Face') if not f.f.get('implicit') and len(f.f.get('params') or []) == 2]
    inst = 'Face::Face keeps the caller\'s release_table whatever the caller\'s structure size (interpreted)'
    if len(ctors) != 1:
        run.broken(rule, inst, 'Face::Face(appFaceHandle, ops) not found')
        return
    fn = ctors[0]
    frec = fx.record('graphite2::Face')
    orec = fx.raw['records'].get('gr_face_ops')
    if orec is None or [f['n'] for f in orec['fields']] != ['size', 'get_table', 'release_table']:
        run.broken(rule, inst, 'gr_face_ops is not {size, get_table, release_table} any more: re-derive the prefix-copy model', fn.where())
        return
    names = [orec['q'] + '::' + f['n'] for f in orec['fields']]
    cases = 0
    try:
        for size in (8, 16, 24, 32, 48):
            face = O.Rec()
            for f in frec['fields']:
                face[PF + f['n']] = None
            mine = O.Rec({n: 'garbage' for n in names})
            face[PF + 'm_ops'] = mine
            GET, REL = O.Rec({'#fn': 'get'}), O.Rec({'#fn': 'rel'})
            ops = O.Rec({names[0]: size, names[1]: O.Ptr(GET), names[2]: O.Ptr(REL)})

            def rec_of(x):
                if isinstance(x, O.PtrLV):
                    return x.lv.load()
                if isinstance(x, O.LV):
                    return x.load()
                return x.rec if isinstance(x, O.Ptr) else x

            def memset_(I, f, e, obj, a):
                d, v, n = I.rv(a[0]), I.rv(a[1]), I.rv(a[2])
                if not (rec_of(d) is face[PF + 'm_ops'] and v == 0 and isinstance(n, int)):
                    raise AnalysisBroken('memset of something other than m_ops: %r %r %r' % (d, v, n))
                for k, nm in enumerate(names):
                    if 8 * (k + 1) <= n:
                        face[PF + 'm_ops'][nm] = 0 if k == 0 else O.Ptr(None)
                return d

            def memcpy_(I, f, e, obj, a):
                d, s_, n = I.rv(a[0]), I.rv(a[1]), I.rv(a[2])
                if not (rec_of(d) is face[PF + 'm_ops'] and rec_of(s_) is ops and isinstance(n, int)):
                    raise AnalysisBroken('memcpy of something other than m_ops <- ops')
                if n > 24:
                    raise O.Violation('%d bytes are copied into the 24-byte m_ops' % n, f.loc(e))
                for k, nm in enumerate(names):
                    if 8 * (k + 1) <= n:
                        face[PF + 'm_ops'][nm] = ops[nm]
                return d
            it = O.Interp(fx, natives={'memset': memset_, 'memcpy': memcpy_})
            it.MAX_STEPS = 3000
            cases += 1
            it.call(fn, face, [O.Ptr(O.Rec({'#handle': 1})), O.LV([ops], 0)])
            for k, nm in ((1, 'get_table'), (2, 'release_table')):
                got = face[PF + 'm_ops'].get(names[k], 'garbage')
                want = (GET, REL)[k - 1] if size >= 8 * (k + 1) else None
                g_ = got.rec if isinstance(got, O.Ptr) else got
                if g_ is not want:
                    run.violated(rule, inst, fn.where(), 'a caller whose gr_face_ops is %d bytes long (size member): afterwards Face::m_ops.%s is %s, expected %s -- %s' %
                                 (size, nm, 'null' if g_ is None else 'the caller\'s' if g_ in (GET, REL) else repr(g_), 'the caller\'s' if want is not None else 'null',
                                  'the library reads a member that lies behind the structure the caller passed (foreign bytes become a function pointer that Face::Table::release later calls)' if want is None and g_ is not None
                                  else 'every table the face borrows is never handed back to the application' if nm == 'release_table' else 'the face cannot load a table'))
                    return
    except O.Violation as v:
        run.violated(rule, inst, fn.where(), '%s (%s)' % (v.what, v.loc))
        return
    except AnalysisBroken as ex:
        run.broken(rule, inst, str(ex), fn.where())
        return
    run.held(rule, inst, fn.where(), '%d caller layouts' % cases)


def run(run):
    E = ER.setup(run)
    fx = E.fx

    def guarded(name, f):
        """one rule not recognising a new shape (exit 2 for its instances) must not keep the others from deciding"""
        try:
            return f()
        except AnalysisBroken as ex:
            run.broken(name, 'engine', str(ex))
    guarded('TABLETS', lambda: opsflow(run, fx))
    guarded('WIT', lambda: wit(run))
    guarded('TABLETS', lambda: tablets(run, fx))
    guarded('TABLETS', lambda: opscopy_exec(run, fx))
    entries = [e for e in ER.api_entries(E.ir) if e not in ER.ENTRY_LOAD]
    cuts, lazyfn = ER.lazy_cuts(run, E, 'NOCALLBACK')
    reach = E.reachable(entries, cuts)
    guarded('NOCALLBACK', lambda: c09.nocallback(run, E, reach, cuts))
    guarded('PRELOAD', lambda: c09.preload(run, fx))
    guarded('NAMEPRELOAD', lambda: c09.namepreload(run, fx))
    guarded('OWNFIELD', lambda: ownfield(run, fx))
    guarded('OWNFIELD', lambda: overwrite(run, fx))
    guarded('OWNFIELD', lambda: freenull(run, fx))
    guarded('OWNLOCAL', lambda: ownlocal(run, fx, None))
    guarded('OWNFIELD', lambda: codemove_exec(run, fx))
    guarded('OWNFIELD', lambda: dtorguards(run, fx))
    guarded('OWNFIELD', lambda: nullleak(run, fx))
    guarded('OWNFIELD', lambda: cellalias(run, fx))
    from . import c10 as c10_, c13 as c13_
    from .util import OnlyRules as _Only
    guarded('PRELOAD', lambda: c10_.optentry(_Only(run, ['OPTFLOW'], {'OPTFLOW': 'PRELOAD'}), fx))       # gr_face_preloadAll reaches the face from every constructor that takes options (shared with C10)
    guarded('OWNFIELD', lambda: c13_.cmapbound(_Only(run, ['CMAPBOUND'], {'CMAPBOUND': 'OWNFIELD'}), fx))   # the cached cmap frees as many blocks as it allocates (shared with C13)
    if not run.cfg_tag and not run.cfg_map:
        guarded('OWNFIELD', lambda: logclose(run))
    from . import noescape
    guarded('NOESCAPE', lambda: noescape.check(run, E, 'NOESCAPE'))
    # build-time siblings: code under #ifndef GRAPHITE2_NFILEFACE must uphold the same ownership rules when the macro is set.
    # The AST-only ownership rules are cheap, so the quick tier already evaluates them on that configuration as well
    # (the thorough tier re-runs everything on every configuration anyway).
    if not run.cfg_tag and not run.cfg_map:
        try:
            run.cfg_tag = 'nofile'
            fx2 = run.facts('nofile')
            tablets(run, fx2)
            ownfield(run, fx2)
            ownlocal(run, fx2, None)
        finally:
            run.cfg_tag = ''
    run.assume('allocation failure is outside the quantifier (histories, configurations, inputs)')


def table_exec(run, fx):
    """TABLETS by bounded execution (rules/ordint.py): the whole life of a Face::Table -- constructor (with the application's get_table
    and TtfUtil::CheckTable as natives), decompress (allocator, lz4::decompress as natives), move-assignment over another live table,
    destructor -- is interpreted for every combination of: get_table answers null / a buffer; CheckTable accepts / rejects; the table's
    version word asks for decompression or not; scheme NONE / LZ4 / unknown; the decoder succeeds / fails; the decoded version word
    matches / differs; and the table is destroyed directly or first moved into another table that holds a plain or a decompressed
    buffer.  At the end every buffer obtained from get_table has gone back through release_table exactly once and never through free();
    every buffer the library allocated has been freed exactly once and never handed to release_table."""
    import itertools
    from . import ordint as O
    T = 'graphite2::Face::Table'
    ctor = [f for f in fx.fns_named(T + '::Table') if 'const graphite2::Face &' in f.f['sig']][0]
    mctor = [f for f in fx.fns_named(T + '::Table') if '&&' in f.f['sig']]
    dtor = fx.fns_named(T + '::~Table')[0]
    assign = fx.fns_named(T + '::operator=')[0]
    PF, PT, PO = 'graphite2::Face::', T + '::', 'gr_face_ops::'
    VERSION = 0x00050000
    cases = 0

    def scenario(gt, chk, needs, scheme, lzok, vermatch):
        log = {'released': [], 'freed': [], 'obtained': [], 'allocated': []}

        def get_table(I, f, e, obj, a):
            if not gt:
                return O.Ptr(None)
            hdr = (scheme << 27) | 16
            # a table CheckTable rejects may be too short to have a version word at all: it is handed out as an EMPTY buffer, so any read is reported
            v = O.Vec([VERSION if needs else VERSION - 1, hdr, 0, 0, 0, 0, 0, 0]) if chk else O.Vec([])
            log['obtained'].append(v)
            ln = I.rv(a[2]) if len(a) > 2 else None
            if isinstance(ln, O.PtrLV):
                ln.lv.store(32 if chk else 0)
            return O.It(v, 0)

        def release_table(I, f, e, obj, a):
            p_ = I.rv(a[1])
            log['released'].append(p_.vec if isinstance(p_, O.It) else None)
            return None

        def free_(I, f, e, obj, a):
            p_ = I.rv(a[0])
            if isinstance(p_, O.It):
                log['freed'].append(p_.vec)
            return None

        def gralloc(I, f, e, obj, a):
            v = O.Vec([0] * 8)
            log['allocated'].append(v)
            return O.It(v, 0)

        def lz4(I, f, e, obj, a):
            out, osz = I.rv(a[2]), I.rv(a[3])
            if isinstance(out, O.It):
                out.vec.items[0] = VERSION if (vermatch and needs) else 7        # the first bytes may decode fine even when the block is damaged further on
            return osz if lzok else -1

        def be_read(I, f, e, obj, a):
            lv = a[0]
            p_ = lv.load() if isinstance(lv, O.LV) else I.rv(lv)
            v = I.deref_it(p_, f, e).load()
            if isinstance(lv, O.LV):
                lv.store(O.It(p_.vec, p_.idx + 1, p_.gen))
            return v
        nat = {'graphite2::TtfUtil::CheckTable': lambda I, f, e, obj, a: bool(chk and gt), 'free': free_, 'graphite2::gralloc': gralloc, 'memset': lambda I, f, e, obj, a: None,
               'lz4::decompress': lz4, 'be::read': be_read}
        ops = O.Rec({PO + 'size': 24, PO + 'get_table': get_table, PO + 'release_table': release_table})
        face = O.Rec({PF + 'm_ops': ops, PF + 'm_appFaceHandle': O.Ptr(O.Rec())})
        return log, nat, face

    def mk():
        return O.Rec({PT + '_f': O.Ptr(None), PT + '_p': O.Ptr(None), PT + '_sz': 0, PT + '_compressed': False})
    combos = list(itertools.product((False, True), (False, True), (False, True), (0, 1, 2), (False, True), (False, True)))
    for gt, chk, needs, scheme, lzok, vermatch in combos:
        for other in (None, 'plain', 'compressed'):
            log, nat, face = scenario(gt, chk, needs, scheme, lzok, vermatch)
            desc = 'get_table %s, CheckTable %s, version word %s decompression, scheme %s, decoder %s, decoded version %s%s' % (
                'answers' if gt else 'gives null', 'accepts' if chk else 'rejects', 'asks for' if needs else 'does not ask for', ('NONE', 'LZ4', 'unknown')[scheme],
                'succeeds' if lzok else 'fails', 'matches' if vermatch else 'differs', '' if other is None else '; then moved over a table holding a %s buffer' % other)
            cases += 1
            try:
                it = O.Interp(fx, natives=nat)
                it.MAX_STEPS = 20000
                it.run_user_copies = True          # Table's move constructor nulls the source: it must run, not be modelled as a field-wise copy
                t1 = mk()
                it.call(ctor, t1, [face, O.Rec({'graphite2::TtfUtil::Tag::_v': 0x53696c66}), VERSION])
                # what the table must look like now
                p1 = t1[PT + '_p']
                have = p1.vec if isinstance(p1, O.It) else None
                if not gt or not chk:
                    want = 'nothing'
                elif not needs or scheme == 0:
                    want = 'the table as obtained'
                elif scheme == 1 and lzok and vermatch:
                    want = 'the decompressed copy'
                else:
                    want = 'nothing'
                got_ = 'nothing' if have is None else ('the table as obtained' if any(have is x for x in log['obtained']) else 'the decompressed copy' if any(have is x for x in log['allocated']) else 'something else')
                if got_ != want:
                    return cases, '%s: after construction the table holds %s, expected %s (a damaged compressed table must not be accepted)' % (desc, got_, want)
                if other is not None:
                    t2 = mk()
                    t2[PT + '_f'] = O.Ptr(face)
                    ov = O.Vec([1, 2, 3, 4])
                    t2[PT + '_p'] = O.It(ov, 0)
                    t2[PT + '_sz'] = 16
                    t2[PT + '_compressed'] = (other == 'compressed')
                    log['obtained' if other == 'plain' else 'allocated'].append(ov)
                    it.call(assign, t2, [t1])
                    it.call(dtor, t2, [])
                it.call(dtor, t1, [])
            except O.Violation as v:
                return cases, '%s: %s (%s)' % (desc, v.what, v.loc)
            for v in log['obtained']:
                nrel = sum(1 for x in log['released'] if x is v)
                if any(x is v for x in log['freed']):
                    return cases, '%s: a buffer obtained from get_table is passed to free()' % desc
                if nrel != 1:
                    return cases, '%s: a buffer obtained from get_table is handed to release_table %d time(s)' % (desc, nrel)
            for v in log['allocated']:
                nfr = sum(1 for x in log['freed'] if x is v)
                if any(x is v for x in log['released']):
                    return cases, '%s: a buffer the library allocated is handed to the application\'s release_table' % desc
                if nfr != 1:
                    return cases, '%s: a buffer the library allocated is freed %d time(s)' % (desc, nfr)
    return cases, None
