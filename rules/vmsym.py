"""Symbolic normalisation of opcode handlers (the functions call_machine.cpp generates from
inc/opcodes.h, one per opcode) into their *effect*: per control path the final stack
pointer offset, the cells written (as bit-vector expression trees over the entry stack
cells S(off), the operand bytes P(j) and constants, with explicit widths and explicitly
signed operators read from the type-checked AST), the cells read, the data-pointer
advance, the calls made and the exit kind.  No values are ever evaluated: this is an AST
normal form, compared structurally against the spec table (SIG) and used for the stack
excursion bound (VMSTACK).
"""
from .cfg import int_type
from .facts import AnalysisBroken

M32 = 0xFFFFFFFF



class StackReset(AnalysisBroken):
    """a handler assigns the stack base to the stack pointer: its effect is no longer relative to the depth it was entered with"""

class Unknown(Exception):
    pass


def K(v, w=32):
    return ('K', v & ((1 << w) - 1), w)


def width(x):
    t = x[0]
    if t == 'S':
        return 32
    if t == 'P':
        return 8
    if t == 'K':
        return x[2]
    if t == 'bin':
        return x[2]
    if t in ('cmp', 'land', 'lor', 'lnot'):
        return 1
    if t == 'ext':
        return x[2]
    if t == 'trunc':
        return x[1]
    if t == 'sel':
        return width(x[2])
    if t == 'bnot':
        return x[1]
    if t == 'opaque':
        return x[2]
    if t == 'G':
        return 32
    if t == 'endopcond':
        return 1
    raise Unknown('width of %r' % (x,))


def rng(x):
    """signed-interpretation-free value interval as a mathematical integer range of the
    *unsigned* w-bit pattern is not what overflow needs; we track the interval of the value as
    the C++ expression type would see it: (lo, hi) or None (= full range of its width)."""
    t = x[0]
    if t == 'K':
        return (x[1], x[1])
    if t == 'P':
        return (0, 255)
    if t == 'ext':
        _, kind, w, a = x
        r = rng(a)
        wa = width(a)
        if kind == 'z':
            if r is not None and r[0] >= 0:
                return r
            return (0, (1 << wa) - 1)
        else:
            if r is not None and r[1] < (1 << (wa - 1)):
                return r
            return (-(1 << (wa - 1)), (1 << (wa - 1)) - 1)
    if t in ('cmp', 'land', 'lor', 'lnot'):
        return (0, 1)
    if t == 'bin':
        _, op, w, a, b = x
        ra, rb = rng(a), rng(b)
        if ra is None or rb is None:
            if op == 'and':
                for r in (ra, rb):
                    if r is not None and r[0] >= 0:
                        return (0, r[1])
            if op == 'mul':
                for r, o in ((ra, rb), (rb, ra)):
                    if r is not None and r[0] >= 0 and r[1] <= 1:
                        return None     # x * [0,1] stays within x's own range: caller handles
            return None
        if op == 'add':
            return (ra[0] + rb[0], ra[1] + rb[1])
        if op == 'sub':
            return (ra[0] - rb[1], ra[1] - rb[0])
        if op == 'mul':
            c = [p * q for p in ra for q in rb]
            return (min(c), max(c))
        if op == 'shl' and rb[0] == rb[1] and ra[0] >= 0:
            return (ra[0] << rb[0], ra[1] << rb[0])
        if op == 'or' and ra[0] >= 0 and rb[0] >= 0:
            hi = (1 << max(ra[1].bit_length(), rb[1].bit_length())) - 1
            return (0, hi)
        if op == 'and' and (ra[0] >= 0 or rb[0] >= 0):
            return (0, min(r[1] for r in (ra, rb) if r[0] >= 0))
        return None
    if t == 'sel':
        ra, rb = rng(x[2]), rng(x[3])
        if ra is None or rb is None:
            return None
        return (min(ra[0], rb[0]), max(ra[1], rb[1]))
    if t == 'trunc':
        r = rng(x[2])
        if r is not None and 0 <= r[0] and r[1] < (1 << x[1]):
            return r
        return None
    return None


def simp(x):
    """Local canonicalisation of a bit-vector tree."""
    t = x[0]
    if t == 'ext':
        _, kind, w, a = x
        a = simp(a)
        wa = width(a)
        if wa == w:
            return a
        if wa > w:
            return simp(('trunc', w, a))
        if a[0] == 'K':
            v = a[1]
            if kind == 's' and v >> (wa - 1):
                v -= (1 << wa)
            return K(v, w)
        if a[0] == 'ext':
            # ext(ext z) -> ext z ; sext(sext) -> sext ; sext(zext(x)) [strictly wider] -> zext
            if a[1] == 'z':
                return simp(('ext', 'z', w, a[3]))
            if a[1] == 's' and kind == 's':
                return simp(('ext', 's', w, a[3]))
        if a[0] in ('cmp', 'land', 'lor', 'lnot'):
            return ('ext', 'z', w, a)
        return ('ext', kind, w, a)
    if t == 'trunc':
        _, w, a = x
        a = simp(a)
        wa = width(a)
        if wa == w:
            return a
        if a[0] == 'K':
            return K(a[1], w)
        if a[0] == 'ext' and width(a[3]) <= w:
            return simp(('ext', a[1], w, a[3]))
        if a[0] == 'ext' and width(a[3]) > w:
            return simp(('trunc', w, a[3]))
        if a[0] == 'trunc':
            return simp(('trunc', w, a[2]))
        return ('trunc', w, a)
    if t == 'bin':
        _, op, w, a, b = x
        a, b = simp(a), simp(b)
        if a[0] == 'K' and b[0] == 'K' and op in ('add', 'sub', 'mul', 'and', 'or', 'xor', 'shl'):
            f = {'add': lambda p, q: p + q, 'sub': lambda p, q: p - q, 'mul': lambda p, q: p * q,
                 'and': lambda p, q: p & q, 'or': lambda p, q: p | q, 'xor': lambda p, q: p ^ q,
                 'shl': lambda p, q: p << q}[op]
            return K(f(a[1], b[1]), w)
        if op in ('add', 'mul', 'and', 'or', 'xor') and repr(b) < repr(a):
            a, b = b, a
        return ('bin', op, w, a, b)
    if t == 'cmp':
        _, op, a, b = x
        a, b = simp(a), simp(b)
        if op in ('eq', 'ne') and repr(b) < repr(a):
            a, b = b, a
        # (bool-as-int != 0) -> bool ; (bool-as-int == 0) -> lnot
        for p, q in ((a, b), (b, a)):
            if q[0] == 'K' and q[1] == 0 and p[0] == 'ext' and p[1] == 'z' and width(p[3]) == 1 and op in ('eq', 'ne'):
                return p[3] if op == 'ne' else simp(('lnot', p[3]))
            # (x | y) != 0  <=>  x != 0 || y != 0   (the bitwise form of a logical or is exact)
            if q[0] == 'K' and q[1] == 0 and p[0] == 'bin' and p[1] == 'or' and op in ('eq', 'ne'):
                z = K(0, width(p))
                if op == 'ne':
                    return simp(('lor', ('cmp', 'ne', p[3], z), ('cmp', 'ne', p[4], z)))
                return simp(('land', ('cmp', 'eq', p[3], z), ('cmp', 'eq', p[4], z)))
        return ('cmp', op, a, b)
    if t in ('land', 'lor'):
        a, b = simp(x[1]), simp(x[2])
        if repr(b) < repr(a):
            a, b = b, a
        return (t, a, b)
    if t == 'lnot':
        a = simp(x[1])
        if a[0] == 'lnot':
            return a[1]
        if a[0] == 'cmp':
            inv = {'eq': 'ne', 'ne': 'eq', 'slt': 'sge', 'sge': 'slt', 'sgt': 'sle', 'sle': 'sgt',
                   'ult': 'uge', 'uge': 'ult', 'ugt': 'ule', 'ule': 'ugt'}
            return ('cmp', inv[a[1]], a[2], a[3])
        return ('lnot', a)
    if t == 'sel':
        c, a, b = simp(x[1]), simp(x[2]), simp(x[3])
        if a == b:
            return a
        if width(a) == 1:
            if b == ('K', 0, 1):
                return simp(('land', c, a))
            if a == ('K', 1, 1):
                return simp(('lor', c, b))
            if a == ('K', 0, 1):
                return simp(('land', simp(('lnot', c)), b))
            if b == ('K', 1, 1):
                return simp(('lor', simp(('lnot', c)), a))
        return ('sel', c, a, b)
    if t == 'bnot':
        return ('bnot', x[1], simp(x[2]))
    return x


def show(x):
    t = x[0]
    if t == 'S':
        return 'S[%d]' % x[1]
    if t == 'P':
        return 'P%d' % x[1]
    if t == 'K':
        return ('%d' % x[1]) if x[1] < 65536 else hex(x[1])
    if t == 'bin':
        return '(%s %s.%d %s)' % (show(x[3]), x[1], x[2], show(x[4]))
    if t == 'cmp':
        return '(%s %s %s)' % (show(x[2]), x[1], show(x[3]))
    if t == 'ext':
        return '%sext%d(%s)' % (x[1], x[2], show(x[3]))
    if t == 'trunc':
        return 'trunc%d(%s)' % (x[1], show(x[2]))
    if t in ('land', 'lor'):
        return '(%s %s %s)' % (show(x[1]), t, show(x[2]))
    if t == 'lnot':
        return '!%s' % show(x[1])
    if t == 'sel':
        return '(%s ? %s : %s)' % (show(x[1]), show(x[2]), show(x[3]))
    if t == 'bnot':
        return '~%s' % show(x[2])
    if t == 'opaque':
        return '<%s>' % x[1]
    if t == 'G':
        return 'GARBAGE[%d]' % x[1]
    return repr(x)


def has_opaque(x):
    if not isinstance(x, tuple):
        return False
    if x[0] in ('opaque', 'G'):
        return True
    return any(has_opaque(c) for c in x[1:] if isinstance(c, tuple))


class Leaf:
    def __init__(self):
        self.spoff = 0
        self.dpoff = 0
        self.cells = {}
        self.reads = []          # (offset, loc) of stack cells read
        self.writes = []         # (offset, loc)
        self.params = set()      # operand bytes read
        self.param_claim = 0     # bytes claimed with declare_params/use_params (dp advance)
        self.calls = []          # (callee, loc, args)
        self.pc = []             # (cond_tree, polarity, loc)
        self.exit = None         # 'ENDOP' | 'EXIT' | 'OTHER'
        self.endop = None        # description of the continue condition
        self.signed_arith = []   # (op, loc, text) possibly overflowing signed arithmetic on VM values
        self.divs = []           # (kind, loc, divisor tree, dividend tree)
        self.minsp = 0
        self.maxsp = 0
        self.loc_exit = None
        self.dpvar = []          # variable-length operand claims (text, loc)

    def clone(self):
        n = Leaf()
        n.spoff, n.dpoff = self.spoff, self.dpoff
        n.cells = dict(self.cells)
        n.reads = list(self.reads)
        n.writes = list(self.writes)
        n.params = set(self.params)
        n.param_claim = self.param_claim
        n.calls = list(self.calls)
        n.pc = list(self.pc)
        n.signed_arith = list(self.signed_arith)
        n.divs = list(self.divs)
        n.minsp, n.maxsp = self.minsp, self.maxsp
        n.dpvar = list(self.dpvar)
        return n


class HandlerSym:
    """Symbolically executes one handler function (call-threaded form)."""

    MAX_LEAVES = 4000

    def __init__(self, fn, roles=None, start=None):
        self.fn = fn
        if roles is None:
            ps = fn.f['params']
            if len(ps) != 4:
                raise AnalysisBroken('%s: handler does not have the (dp, sp, sb, reg) signature' % fn.q)
            self.v_dp, self.v_sp, self.v_sb, self.v_reg = [p['vid'] for p in ps]
        else:
            self.v_dp, self.v_sp, self.v_sb, self.v_reg = roles['dp'], roles['sp'], roles['sb'], roles.get('reg', -1)
        self.start = fn.entry if start is None else start
        self.leaves = []
        self.opq = 0

    # ------------------------------------------------------------------------------
    def run(self):
        st = Leaf()
        self._explore(self.start, st, {}, {}, {})
        return self.leaves

    def _opaque(self, text, w=32):
        self.opq += 1
        return ('opaque', '%s#%d' % (text, self.opq), w)

    def _explore(self, b, st, val, locs, visits):
        fn = self.fn
        while True:
            if len(self.leaves) > self.MAX_LEAVES:
                raise AnalysisBroken('%s: too many paths' % fn.q)
            visits = dict(visits)
            visits[b] = visits.get(b, 0) + 1
            if visits[b] > 2:
                return          # loop unrolled once; further iterations add nothing (sp checked below)
            blk = fn.blocks[b]
            for e in blk['el']:
                self._eval(e, st, val, locs)
                if st.exit:
                    break
            if st.exit:
                self.leaves.append(st)
                return
            tk = (blk.get('term') or {}).get('k')
            if tk == 'IndirectGotoStmt':
                # direct-threaded ENDOP: goto *((sp - sb)/STACK_MAX ? &&end : *++ip)
                st.exit = 'ENDOP'
                st.loc_exit = '%s:%s' % (fn.file, blk['term'].get('ln'))
                ec = [c for c, p, _ in st.pc if isinstance(c, tuple) and c[0] == 'endopcond']
                if ec:
                    c = ec[-1]
                    st.endop = {'sp_offset_used': c[1], 'divisor': show(c[2]) if isinstance(c[2], tuple) else str(c[2]),
                                'divisor_type': c[3], 'cmp': '==', 'rhs': '0'}
                    st.pc = [x for x in st.pc if not (isinstance(x[0], tuple) and x[0][0] == 'endopcond')]
                else:
                    st.endop = {'sp_offset_used': None, 'divisor': None, 'divisor_type': None, 'cmp': None, 'rhs': None}
                self.leaves.append(st)
                return
            if tk == 'GotoStmt':
                st.exit = 'EXIT' if blk['term'].get('label') == 'end' else 'OTHER'
                st.loc_exit = '%s:%s' % (fn.file, blk['term'].get('ln'))
                if st.exit == 'OTHER':
                    st.endop = {'goto': blk['term'].get('label')}
                self.leaves.append(st)
                return
            succ = blk['succ']
            if b == fn.exit or not succ:
                st.exit = st.exit or 'OTHER'
                self.leaves.append(st)
                return
            if len(succ) == 1:
                if succ[0] is None:
                    return
                b = succ[0]
                continue
            term = blk.get('term') or {}
            cond = term.get('cond')
            cval = val.get(cond) if cond is not None else None
            if len(succ) == 2:
                cv = self._as_bool(cval) if cval is not None else self._opaque('cond', 1)
                for idx, pol in ((0, True), (1, False)):
                    if succ[idx] is None:
                        continue
                    s2 = st.clone()
                    s2.pc.append((cv, pol, fn.loc(fn.nodes[cond]) if cond is not None else fn.where()))
                    v2 = dict(val)
                    v2[('branch', b)] = pol
                    self._explore(succ[idx], s2, v2, dict(locs), visits)
                return
            # switch etc.
            for s in succ:
                if s is None:
                    continue
                s2 = st.clone()
                s2.pc.append((self._opaque('switch', 1), True, fn.where()))
                self._explore(s, s2, dict(val), dict(locs), visits)
            return

    # ------------------------------------------------------------------------------
    def _as_bool(self, v):
        if v is None:
            return self._opaque('bool', 1)
        if v[0] in ('ptr', 'lv'):
            return self._opaque('ptrtest', 1)
        if v[0] == 'spdist_div':
            return ('endopcond', v[1], v[2], v[3])
        if v[0] in ('endopcond', 'spdist', 'endop'):
            return v
        if width(v) == 1:
            return v
        return simp(('cmp', 'ne', v, K(0, width(v))))

    def _read_cell(self, st, off, loc):
        st.reads.append((off, loc))
        if off in st.cells:
            return st.cells[off]
        if off > 0:
            return ('G', off)
        return ('S', off)

    def _rv(self, x, val):
        """value of child x (element id or inline node)"""
        if isinstance(x, int):
            return val.get(x)
        return self._inline(x, val)

    def _inline(self, n, val):
        # inline nodes are rare with setAllAlwaysAdd (unevaluated operands); constants only
        if n.get('v') is not None:
            it = int_type(n.get('t')) or (32, True)
            return K(n['v'], max(it[0], 1))
        return None

    def _conv(self, v, from_t, to_t, what):
        fi, ti = int_type(from_t), int_type(to_t)
        if v is None:
            return None
        if v[0] in ('ptr', 'lv', 'spdist', 'spdist_div', 'endop'):
            return v
        if fi is None or ti is None:
            return self._opaque('conv:%s->%s' % (from_t, to_t), (ti or (32, 0))[0])
        if to_t in ('bool', '_Bool'):
            return self._as_bool(v)
        w = width(v)
        if w != fi[0]:
            # value tracked at a different width than its C++ type: normalise first
            v = simp(('ext', 's' if fi[1] else 'z', fi[0], v)) if w < fi[0] else simp(('trunc', fi[0], v))
        if ti[0] > fi[0]:
            return simp(('ext', 's' if fi[1] else 'z', ti[0], v))
        if ti[0] < fi[0]:
            return simp(('trunc', ti[0], v))
        return v

    def _eval(self, e, st, val, locs):
        fn = self.fn
        k = e['k']
        i = e['i']
        loc = fn.loc(e)
        c = e.get('c') or []
        try:
            if e.get('v') is not None and int_type(e.get('t')) and not e.get('lv'):
                val[i] = K(e['v'], int_type(e['t'])[0])
                return
            if k == 'DeclRefExpr':
                vid = e.get('vid')
                if vid == self.v_sp:
                    val[i] = ('lv', 'sp')
                elif vid == self.v_dp:
                    val[i] = ('lv', 'dp')
                elif vid == self.v_sb:
                    val[i] = ('lv', 'sb')
                elif vid == self.v_reg:
                    val[i] = ('lv', 'reg')
                elif vid is not None:
                    val[i] = ('lv', 'local', vid)
                elif e.get('dk') == 'EnumConstant' or e.get('v') is not None:
                    it = int_type(e.get('t')) or (32, True)
                    val[i] = K(e.get('v', 0), it[0]) if e.get('v') is not None else self._opaque(e['d'])
                else:
                    val[i] = ('lv', 'global', e['d'])
                return
            if k in ('IntegerLiteral', 'CharacterLiteral', 'CXXBoolLiteralExpr'):
                it = int_type(e.get('t')) or (32, True)
                val[i] = K(e.get('v', 0), it[0])
                return
            if k in ('ParenExpr', 'ExprWithCleanups', 'ConstantExpr', 'MaterializeTemporaryExpr', 'CXXBindTemporaryExpr'):
                val[i] = self._rv(c[0], val)
                return
            if k.endswith('CastExpr'):
                ck = e.get('ck')
                src = self._rv(c[0], val)
                if ck == 'LValueToRValue':
                    val[i] = self._load(src, st, locs, loc, e.get('t'))
                elif ck in ('NoOp', 'ArrayToPointerDecay', 'FunctionToPointerDecay', 'BitCast', 'NullToPointer'):
                    val[i] = src
                elif ck in ('IntegralCast', 'IntegralToBoolean', 'BooleanToSignedIntegral'):
                    ct = fn.N(c[0]).get('t')
                    val[i] = self._conv(src, ct, e.get('t'), ck)
                elif ck == 'PointerToBoolean':
                    val[i] = self._opaque('ptrtest', 1)
                else:
                    it = int_type(e.get('t'))
                    val[i] = self._opaque('cast:' + str(ck), it[0] if it else 32)
                return
            if k == 'UnaryOperator':
                op = e['op']
                a = self._rv(c[0], val)
                if op in ('post++', 'post--', 'pre++', 'pre--'):
                    d = 1 if '++' in op else -1
                    if a == ('lv', 'sp'):
                        old = st.spoff
                        st.spoff += d
                        st.minsp = min(st.minsp, st.spoff)
                        st.maxsp = max(st.maxsp, st.spoff)
                        val[i] = ('ptr', 'sp', old if op.startswith('post') else st.spoff)
                        if op.startswith('pre'):
                            val[i] = ('lv', 'sp')          # pre-inc yields the lvalue
                            val[('preval', i)] = ('ptr', 'sp', st.spoff)
                    elif a == ('lv', 'dp'):
                        old = st.dpoff
                        st.dpoff += d
                        val[i] = ('ptr', 'dp', old) if op.startswith('post') else ('lv', 'dp')
                    elif a is not None and a[0] == 'lv' and a[1] == 'local':
                        cur = locs.get(a[2])
                        if cur is not None and cur[0] == 'ptr':
                            locs[a[2]] = ('ptr', cur[1], cur[2] + d)
                            val[i] = cur if op.startswith('post') else a
                        else:
                            w = width(cur) if cur is not None and cur[0] not in ('lv',) else 32
                            new = self._opaque('inc', w)
                            locs[a[2]] = new
                            val[i] = cur if op.startswith('post') else a
                    else:
                        st.calls.append(('<write>', loc, fn.render(e)))
                        val[i] = self._opaque('inc')
                    return
                if op == '*':
                    p = a
                    if p is not None and p[0] == 'lv':
                        p = self._load(p, st, locs, loc, None)
                    if p is not None and p[0] == 'ptr' and p[1] == 'sp':
                        val[i] = ('lv', 'cell', p[2])
                    elif p is not None and p[0] == 'ptr' and p[1] == 'dp':
                        val[i] = ('lv', 'pbyte', p[2])
                    else:
                        val[i] = ('lv', 'mem', fn.render(e))
                    return
                if op == '&':
                    val[i] = ('ptr', 'addr', fn.render(e)) if not (a and a[0] == 'lv' and a[1] == 'cell') else ('ptr', 'sp', a[2])
                    return
                it = int_type(e.get('t')) or (32, True)
                if a is None or a[0] in ('ptr', 'lv'):
                    val[i] = self._opaque('un' + op, it[0])
                    return
                if op == '-':
                    if it[1]:
                        r = rng(a)
                        if r is None or -r[0] > (1 << (it[0] - 1)) - 1:
                            st.signed_arith.append(('neg', loc, 'unary minus on a signed %d-bit VM value: %s' % (it[0], show(a))))
                    val[i] = simp(('bin', 'sub', it[0], K(0, it[0]), a))
                elif op == '~':
                    val[i] = ('bnot', it[0], a)
                elif op == '!':
                    val[i] = simp(('lnot', self._as_bool(a)))
                elif op == '+':
                    val[i] = a
                else:
                    val[i] = self._opaque('un' + op, it[0])
                return
            if k == 'ArraySubscriptExpr':
                base = self._rv(c[0], val)
                idx = self._rv(c[1], val)
                if base is not None and base[0] == 'lv':
                    base = self._load(base, st, locs, loc, None)
                if base is not None and base[0] == 'ptr' and base[1] in ('sp', 'dp') and idx is not None and idx[0] == 'K':
                    off = idx[1] if idx[1] < (1 << (idx[2] - 1)) else idx[1] - (1 << idx[2])
                    val[i] = ('lv', 'cell' if base[1] == 'sp' else 'pbyte', base[2] + off)
                elif base is not None and base[0] == 'ptr' and base[1] == 'sp':
                    raise AnalysisBroken('%s: stack indexed with a non-constant at %s' % (fn.q, loc))
                else:
                    val[i] = ('lv', 'mem', fn.render(e))
                return
            if k in ('BinaryOperator', 'CompoundAssignOperator'):
                return self._binop(e, st, val, locs, loc)
            if k == 'ConditionalOperator':
                cv, a, b = self._rv(c[0], val), self._rv(c[1], val), self._rv(c[2], val)
                pol = None
                # which arm was evaluated on this path?
                if a is not None and b is None:
                    val[i] = a
                elif b is not None and a is None:
                    val[i] = b
                else:
                    val[i] = a if a is not None else self._opaque('cond')
                # if-conversion happens at leaf merge through the recorded path condition
                return
            if k == 'DeclStmt':
                for d in e['decls']:
                    if d.get('dk') != 'Var':
                        continue
                    iv = self._rv(d['init'], val) if d.get('init') is not None else None
                    if iv is not None and iv[0] == 'lv':
                        if 'ref' in d.get('t', '') or d.get('t', '').endswith('&'):
                            locs[d['vid']] = ('alias', iv)
                            continue
                        iv = self._load(iv, st, locs, loc, d.get('t'))
                    if d.get('t', '').endswith('&') and iv is not None:
                        locs[d['vid']] = ('alias', iv)
                        continue
                    if iv is None:
                        it = int_type(d.get('t'))
                        iv = self._opaque('init:' + d.get('n', '?'), it[0] if it else 32)
                    locs[d['vid']] = iv
                return
            if k in ('CallExpr', 'CXXMemberCallExpr', 'CXXOperatorCallExpr', 'CXXConstructExpr'):
                args = [self._rv(a, val) for a in (e.get('args') if 'args' in e else c)]
                for a in args:
                    if a is not None and ((a[0] == 'ptr' and a[1] == 'sp') or a == ('lv', 'sp') or (a[0] == 'lv' and a[1] == 'cell')):
                        raise AnalysisBroken('%s: the stack pointer / a stack cell escapes into %s at %s' % (fn.q, e.get('fq'), loc))
                st.calls.append((e.get('fq') or '<indirect>', loc, [show(a) if a and a[0] not in ('ptr', 'lv') else str(a) for a in args]))
                it = int_type(e.get('t'))
                val[i] = self._opaque('call:' + (e.get('fq') or '?').split('::')[-1], it[0] if it else 64)
                return
            if k == 'MemberExpr':
                base = self._rv(c[0], val) if c else None
                val[i] = ('lv', 'member', e['d'], base)
                return
            if k == 'ReturnStmt':
                self._ret(e, st, val, loc)
                return
            if k in ('CXXThisExpr', 'CXXNullPtrLiteralExpr', 'GNUNullExpr', 'ImplicitValueInitExpr', 'StringLiteral',
                     'FloatingLiteral', 'UnaryExprOrTypeTraitExpr', 'CXXDefaultArgExpr', 'CXXNewExpr', 'CXXDeleteExpr',
                     'InitListExpr', 'CXXScalarValueInitExpr', 'NullStmt', 'DoStmt', 'AttributedStmt'):
                if e.get('v') is not None:
                    it = int_type(e.get('t')) or (64, False)
                    val[i] = K(e['v'], it[0])
                else:
                    it = int_type(e.get('t'))
                    val[i] = self._opaque(k, it[0] if it else 64)
                return
            if k in ('AutoDtor', 'TempDtor', 'Dup', 'Other'):
                return
            it = int_type(e.get('t'))
            val[i] = self._opaque(k, it[0] if it else 64)
        except Unknown as u:
            raise AnalysisBroken('%s: %s at %s' % (fn.q, u, loc))

    def _load(self, lv, st, locs, loc, ty):
        if lv is None:
            return None
        if lv[0] != 'lv':
            return lv
        kind = lv[1]
        if kind == 'sp':
            return ('ptr', 'sp', st.spoff)
        if kind == 'dp':
            return ('ptr', 'dp', st.dpoff)
        if kind == 'sb':
            return ('ptr', 'sb', 0)
        if kind == 'cell':
            return self._read_cell(st, lv[2], loc)
        if kind == 'pbyte':
            st.params.add(lv[2])
            return ('P', lv[2])
        if kind == 'local':
            v = locs.get(lv[2])
            if v is not None and v[0] == 'alias':
                return self._load(v[1], st, locs, loc, ty)
            if v is None:
                it = int_type(ty)
                return self._opaque('local', it[0] if it else 64)
            return v
        it = int_type(ty)
        return self._opaque(kind, it[0] if it else 64)

    def _store(self, lv, v, st, locs, loc, e):
        fn = self.fn
        if lv is None:
            return
        if lv[0] == 'lv' and lv[1] == 'local':
            cur = locs.get(lv[2])
            if cur is not None and cur[0] == 'alias':
                return self._store(cur[1], v, st, locs, loc, e)
            locs[lv[2]] = v
        elif lv[0] == 'lv' and lv[1] == 'cell':
            st.cells[lv[2]] = v
            st.writes.append((lv[2], loc))
        elif lv == ('lv', 'sp'):
            if v is not None and v[0] == 'ptr' and v[1] == 'sp':
                st.spoff = v[2]
                st.minsp = min(st.minsp, st.spoff)
                st.maxsp = max(st.maxsp, st.spoff)
            elif v is not None and v[0] == 'ptr' and v[1] == 'sb':
                raise StackReset('%s: the stack pointer is reset to the stack base (sp = sb%+d) at %s' % (fn.q, v[2], loc))
            else:
                raise AnalysisBroken('%s: stack pointer assigned an untracked value at %s' % (fn.q, loc))
        elif lv == ('lv', 'dp'):
            if v is not None and v[0] == 'ptr' and v[1] == 'dp':
                st.dpoff = v[2]
            elif v is not None and v[0] == 'ptr' and v[1] == 'dpvar':
                st.dpvar.append((v[2], loc))
            else:
                raise AnalysisBroken('%s: data pointer assigned an untracked value at %s' % (fn.q, loc))
        elif lv[0] == 'lv' and lv[1] == 'pbyte':
            raise AnalysisBroken('%s: write into the operand bytes at %s' % (fn.q, loc))
        else:
            st.calls.append(('<write>', loc, fn.render(e)))

    def _binop(self, e, st, val, locs, loc):
        fn = self.fn
        i, c, op = e['i'], e['c'], e['op']
        la, rb = self._rv(c[0], val), self._rv(c[1], val)
        it = int_type(e.get('t'))
        if op == '=':
            v = rb
            if v is not None and v[0] == 'lv':
                v = self._load(v, st, locs, loc, e.get('t'))
            self._store(la, v, st, locs, loc, e)
            val[i] = la
            return
        if op == ',':
            val[i] = rb
            return
        if op in ('&&', '||'):
            # the CFG evaluated the right operand only on the non-short-circuit path
            a = self._as_bool(la) if la is not None else None
            took_rhs = rb is not None and isinstance(c[1], int) and self._evaluated(c[1], val)
            if took_rhs:
                val[i] = simp((('land' if op == '&&' else 'lor'), a, self._as_bool(rb))) if a is not None else self._as_bool(rb)
                # the path condition already says a is true (&&) / false (||); keep the closed form
            else:
                val[i] = K(0, 1) if op == '&&' else K(1, 1)
                val[i] = simp((('land' if op == '&&' else 'lor'), a, self._opaque_rhs(c[1], st, val, locs))) if a is not None else val[i]
            return
        compound = e['k'] == 'CompoundAssignOperator'
        base = op[:-1] if compound else op
        lval = la
        if compound:
            la = self._load(la, st, locs, loc, e.get('clty'))
            lt = fn.N(c[0]).get('t')
            la = self._conv(la, lt, e.get('clty'), 'compound') if la is not None and la[0] not in ('ptr', 'lv') else la
            ct = e.get('cty')
        else:
            ct = fn.N(c[0]).get('t')
        # pointer arithmetic
        if la is not None and la[0] == 'ptr' or (rb is not None and rb[0] == 'ptr'):
            res = self._ptrarith(base, la, rb, e, loc)
            if compound:
                self._store(lval, res, st, locs, loc, e)
                val[i] = lval
            else:
                val[i] = res
            return
        if la is None or rb is None or la[0] == 'lv' or rb[0] == 'lv':
            res = self._opaque('bin' + base, it[0] if it else 64)
        else:
            res = self._arith(base, la, rb, ct, fn.N(c[1]).get('t'), st, loc, e)
        if compound:
            res = self._conv(res, e.get('cty'), fn.N(c[0]).get('t'), 'compound-store') if res[0] not in ('ptr', 'lv') else res
            self._store(lval, res, st, locs, loc, e)
            val[i] = lval
        else:
            val[i] = res

    def _evaluated(self, cid, val):
        return cid in val

    def _opaque_rhs(self, cid, st, val, locs):
        """pure re-evaluation of a short-circuited right operand (no side effects allowed)"""
        fn = self.fn
        sub = [x for x in fn.walk(cid)]
        for x in sub:
            if x['k'] in ('CallExpr', 'CXXMemberCallExpr', 'CXXOperatorCallExpr') or \
                    (x['k'] == 'UnaryOperator' and x['op'] in ('post++', 'post--', 'pre++', 'pre--')) or \
                    (x['k'] in ('BinaryOperator', 'CompoundAssignOperator') and x['op'].endswith('=') and x['op'] not in ('==', '!=', '<=', '>=')):
                return self._opaque('rhs-with-effects', 1)
        tmp_val = dict(val)
        tmp_st = st.clone()
        ids = sorted(x['i'] for x in sub if 'i' in x)
        for j in ids:
            self._eval(fn.nodes[j], tmp_st, tmp_val, dict(locs))
        return self._as_bool(tmp_val.get(cid))

    def _ptrarith(self, op, a, b, e, loc):
        if a is not None and b is not None and a[0] == 'ptr' and b[0] == 'ptr':
            if op == '-' and a[1] == 'sp' and b[1] == 'sb':
                return ('spdist', a[2])
            if op in ('==', '!=', '<', '>', '<=', '>='):
                return self._opaque('ptrcmp', 1)
            return self._opaque('ptrdiff', 64)
        p, n = (a, b) if a is not None and a[0] == 'ptr' else (b, a)
        if p[1] in ('sp', 'dp') and n is not None and n[0] == 'K' and op in ('+', '-'):
            w = n[2]
            d = n[1] if n[1] < (1 << (w - 1)) else n[1] - (1 << w)
            return ('ptr', p[1], p[2] + (d if op == '+' else -d))
        if p[1] == 'sp':
            raise AnalysisBroken('%s: non-constant stack pointer arithmetic at %s' % (self.fn.q, loc))
        if p[1] == 'dp' and op in ('+', '-'):
            return ('ptr', 'dpvar', self.fn.render(e))
        return ('ptr', 'other', self.fn.render(e))

    def _arith(self, op, a, b, ta, tb, st, loc, e):
        ia, ib = int_type(ta), int_type(tb)
        it = int_type(e.get('t'))
        if ia is None or ib is None:
            return self._opaque('bin' + op, it[0] if it else 64)
        w, sg = ia
        if a[0] == 'spdist':
            # (sp - sb) / STACK_MAX
            return ('spdist_div', a[1], b, ib) if op == '/' else self._opaque('spdist', 64)
        if a[0] == 'spdist_div':
            return ('endop', a, op, b)
        if width(a) != w:
            a = simp(('ext', 's' if sg else 'z', w, a)) if width(a) < w else simp(('trunc', w, a))
        if op in ('<<', '>>'):
            if op == '<<':
                if sg:
                    ra, rb = rng(a), rng(b)
                    if ra is None or rb is None or ra[0] < 0 or (ra[1] << rb[1]) > (1 << w) - 1:
                        st.signed_arith.append(('shl', loc, 'left shift of a signed value that may not fit: %s' % show(a)))
                return simp(('bin', 'shl', w, a, b))
            return simp(('bin', 'ashr' if sg else 'lshr', w, a, b))
        if width(b) != w:
            b = simp(('ext', 's' if ib[1] else 'z', w, b)) if width(b) < w else simp(('trunc', w, b))
        if op in ('+', '-', '*'):
            name = {'+': 'add', '-': 'sub', '*': 'mul'}[op]
            res = simp(('bin', name, w, a, b))
            if sg and w <= 64:
                ra, rb = rng(a), rng(b)
                ok = False
                lim = (1 << (w - 1))
                if ra is not None and rb is not None:
                    r = rng(('bin', name, w, a, b))
                    ok = r is not None and -lim <= r[0] and r[1] <= lim - 1
                elif name == 'mul':
                    for r in (ra, rb):
                        if r is not None and 0 <= r[0] and r[1] <= 1:
                            ok = True
                if not ok and (self._vmvalue(a) or self._vmvalue(b)):
                    st.signed_arith.append((name, loc, 'signed %d-bit %s on VM-controlled values may overflow: %s'
                                            % (w, name, show(res))))
            return res
        if op in ('/', '%'):
            st.divs.append(('s' if sg else 'u', loc, b, a))
            return simp(('bin', ('s' if sg else 'u') + ('div' if op == '/' else 'rem'), w, a, b))
        if op in ('&', '|', '^'):
            return simp(('bin', {'&': 'and', '|': 'or', '^': 'xor'}[op], w, a, b))
        if op in ('==', '!='):
            return simp(('cmp', 'eq' if op == '==' else 'ne', a, b))
        if op in ('<', '>', '<=', '>='):
            nm = {'<': 'lt', '>': 'gt', '<=': 'le', '>=': 'ge'}[op]
            return simp(('cmp', ('s' if sg else 'u') + nm, a, b))
        return self._opaque('bin' + op, it[0] if it else 64)

    def _vmvalue(self, x):
        """does the tree contain a stack cell or an operand byte (a value the font controls)?"""
        if not isinstance(x, tuple):
            return False
        if x[0] in ('S', 'G'):
            return True
        return any(self._vmvalue(c) for c in x[1:] if isinstance(c, tuple))

    def _ret(self, e, st, val, loc):
        fn = self.fn
        c = e.get('c') or []
        v = self._rv(c[0], val) if c else None
        st.loc_exit = loc
        if v is not None and v[0] == 'endop':
            _, sd, op, rhs = v
            st.exit = 'ENDOP'
            st.endop = {'sp_offset_used': sd[1], 'divisor': show(sd[2]) if isinstance(sd[2], tuple) else str(sd[2]),
                        'divisor_type': sd[3], 'cmp': op, 'rhs': show(rhs) if isinstance(rhs, tuple) else str(rhs)}
        elif v is not None and v[0] == 'K' and v[1] == 0:
            st.exit = 'EXIT'
        else:
            st.exit = 'OTHER'
            st.endop = {'value': str(v)}
