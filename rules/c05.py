"""C05 -- characters and slots stay validly associated.

Decided (necessary conditions; decoded character values and the coverage clause are run-time facts and NOT decided):
  ONEPERCHAR   process_utf_data appends exactly one slot + one char-info per loop iteration with the iteration counter
               as id and `c - base` as the code-unit offset; appendSlot initialises char-info[id] and the slot's
               original/before/after with that id
  ASSOCDOM     every call of the setters Slot::before/after/originate takes an argument of a closed form: another
               slot's before()/after()/original(), defaultOriginal(), appendSlot's id, the tabled accumulators of ASSOC
               and associateChars -- no arithmetic on char indices, so the set of indices held by slots is closed
  CINFO        Segment::charinfo(i) keeps its `index < m_numCharinfo` test and gr_seg_cinfo goes through it
  COUNTSYNC    (shared with C12) the segment's counts equal the characters actually consumed
  ADVANCEBOUND (shared with C11) the text iterator never steps over a code unit it did not vet
  NOMUTPOS     (shared with C03) the stream length cannot change after associateChars numbered the slots
"""
from . import dom, c11, c12, c03
from . import vmrules as R
from .facts import AnalysisBroken
from .util import callers_of, calls_in, field_writes

LEVEL = 'other'
EXPLANATION = ('Provenance (closed-form argument) rule on every call site of the three association setters, path rules on the one loop '
               'that creates char-infos and slots, the char-info bounds test, plus the shared rules on consumed-character counts, the '
               'iterator step bound and the loader rejection of list mutators after slot numbering.  Which code point each char-info '
               'holds and whether every character is covered by some slot range are run-time values and not decided.')
FLOORS = {'ONEPERCHAR': 4, 'ASSOCDOM': 18, 'CINFO': 2, 'COUNTSYNC': 4, 'ADVANCEBOUND': 3, 'NOMUTPOS': 4}

SETTERS = ('graphite2::Slot::before', 'graphite2::Slot::after', 'graphite2::Slot::originate')
GETTERS = ('graphite2::Slot::before', 'graphite2::Slot::after', 'graphite2::Slot::original', 'graphite2::Segment::defaultOriginal')


def oneperchar(run, fx):
    for fn in fx.fns_named('process_utf_data'):
        tag = fn.qt.split('_utf_iterator<')[1].split('>')[0] if '_utf_iterator<' in fn.qt else fn.qt[-20:]
        ap = calls_in(fn, 'graphite2::Segment::appendSlot')
        inst = 'process_utf_data<%s>' % tag
        if len(ap) != 1:
            run.violated('ONEPERCHAR', inst, fn.where(), '%d appendSlot calls per iteration, expected exactly one' % len(ap))
            continue
        a = ap[0]
        a0 = fn.render(fn.strip_all_casts(a['args'][0]))
        a4 = fn.render(fn.N(a['args'][4])).replace(' ', '')
        incs = [e for _, e in fn.elements() if e['k'] == 'UnaryOperator' and e['op'] in ('pre++', 'post++') and fn.render(fn.N(e['c'][0])) == a0]
        loopb = fn.block_of[a['i']]
        in_loop = any(loopb in fn.reachable_from(x) for x in fn.succs(loopb))
        # the code-unit offset: (the text iterator) - (a const local that was initialised from the iterator parameter before the loop)
        itp = [p_ for p_ in fn.f['params'] if '_utf_iterator' in (p_.get('t') or '')]
        off = fn.strip_all_casts(a['args'][4])
        okoff = False
        if itp and off['k'] == 'BinaryOperator' and off['op'] == '-':
            l, r_ = off['c'][0], off['c'][1]
            lvid = [x.get('vid') for x in fn.walk(l) if x['k'] == 'DeclRefExpr'] + [x.get('vid') for x in fn.walk(fn.deref(l)) if x['k'] == 'DeclRefExpr']   # also through a const local (`here = c`)
            rb = fn.strip_all_casts(r_)
            if itp[0]['vid'] in lvid and rb['k'] == 'DeclRefExpr' and rb.get('vid') in fn.const_init and \
                    any(x['k'] == 'DeclRefExpr' and x.get('vid') == itp[0]['vid'] for x in fn.walk(fn.const_init[rb['vid']])):
                okoff = True
        ok = len(incs) == 1 and in_loop and okoff
        if ok:
            run.held('ONEPERCHAR', inst, fn.loc(a), 'appendSlot(%s, .., c - base) once per iteration, %s incremented once' % (a0, a0))
        else:
            run.violated('ONEPERCHAR', inst, fn.loc(a), 'the per-character loop no longer appends exactly one slot with the iteration counter as id and `c - base` as offset '
                         '(id %s incremented %d times, offset argument %s)' % (a0, len(incs), a4))
    asl = fx.one('graphite2::Segment::appendSlot')
    idp = asl.f['params'][0]['n']
    uses = {'charinfo init': False, 'charinfo base': False, 'originate': False, 'before': False, 'after': False}
    for e in calls_in(asl):
        fq = e.get('fq') or ''
        if fq == 'graphite2::CharInfo::init' and ('m_charinfo[%s]' % idp) in asl.render(asl.N(e['obj']), resolve=True):
            uses['charinfo init'] = True
        if fq == 'graphite2::CharInfo::base' and ('m_charinfo[%s]' % idp) in asl.render(asl.N(e['obj']), resolve=True) and e.get('args'):
            uses['charinfo base'] = asl.render(asl.strip_all_casts(e['args'][0])) == asl.f['params'][4]['n']
        for k, q in (('originate', 'graphite2::Slot::originate'), ('before', 'graphite2::Slot::before'), ('after', 'graphite2::Slot::after')):
            if fq == q and e.get('args') and asl.render(asl.strip_all_casts(e['args'][0])) == idp:
                uses[k] = True
    if all(uses.values()):
        run.held('ONEPERCHAR', 'appendSlot initialises char-info and slot with id', asl.where(), 'm_charinfo[id].init/base, originate(id), before(id), after(id)')
    else:
        run.violated('ONEPERCHAR', 'appendSlot initialises char-info and slot with id', asl.where(), 'appendSlot no longer ties char-info[id] and the new slot together: %s' % uses)


ACCUMULATORS = {
    ('(anonymous namespace)::assoc', 'min'): 'minimum of ts->before() over the referenced slots, used only under min > -1',
    ('(anonymous namespace)::assoc', 'max'): 'maximum of ts->after() over the referenced slots, used only under min > -1',
    ('graphite2::Segment::associateChars', 'a'): 'walks from s->after()+1 / s->before()-1 over unassociated neighbours, bounded by offset and offset+numChars, then steps back once',
    ('graphite2::Segment::appendSlot', 'id'): 'the per-character counter of process_utf_data (ONEPERCHAR)',
}


def gapfill(run, fx):
    """associateChars extends a slot's before / after over neighbouring characters no slot claimed on that side: the loop that
    fills char.after runs while char.after is unset, the one that fills char.before while char.before is unset -- and depends on
    nothing else about the character.  (A stricter test, e.g. `both unset`, stops the second fill at every character the first one
    reached: those characters keep before == -1 and lie in no slot's range.)"""
    import re
    fn = fx.one('graphite2::Segment::associateChars')
    n = 0
    for e in calls_in(fn):
        fq = e.get('fq') or ''
        if fq not in ('graphite2::CharInfo::after', 'graphite2::CharInfo::before') or not e.get('args'):
            continue
        own = fq.split('::')[-1]
        recv = fn.render(fn.deref(e['obj']), resolve=True)
        fs = [f[:3] for f in dom.facts_at(fn, e['i'])]
        about = {}
        for f in fs:
            for side, other in ((f[0], f[2]), (f[2], f[0])):
                if side.startswith((recv + '.', recv + '->', '(*' + recv + ').')):
                    m = re.match(r'(?:m_)?(before|after)\b', side[side.index(recv) + len(recv):].lstrip(').->'))
                    about.setdefault(m.group(1) if m else side, []).append(f)
        unset = [f for f in about.get(own, []) if dom.implies(f, (f[0], '<', '0'))]
        if not unset:
            continue                # not a gap-filling site (the min/max pass over the slots' own ranges)
        if not any((y.get('fq') or '') == 'graphite2::Slot::index' for y in fn.walk(fn.deref(e['args'][0]))):
            continue                # not an extension of a slot (the completion pass copies the character's other side)
        n += 1
        inst = 'fill char.%s @%s' % (own, e['ln'])
        extra = sorted(k for k in about if k != own)
        if extra:
            run.violated('CINFO', inst, fn.loc(e), 'the loop that extends a slot over characters whose `%s` is unset also tests the character\'s %s (%s): it stops at characters '
                         'the other fill already reached, which then keep %s == -1 and lie in no slot\'s [before, after] range' % (own, extra, about[extra[0]][0], own))
        else:
            run.held('CINFO', inst, fn.loc(e), 'guarded by `%s %s %s` and by nothing else about the character' % unset[0])
    if n < 2:
        run.broken('CINFO', 'gap filling', 'expected the two gap-filling loops of associateChars (char.after, char.before), found %d' % n, fn.where())


def edgefill(run, fx):
    """a run of unclaimed characters at the very start of the text is reached only by a walk that goes backwards from a slot's first
    character (or by a pass over all characters), never by one that goes forwards from Slot::before() / Slot::after() -- so some
    store that gives a character its `after` must sit in such a walk; symmetrically for `before` and a trailing run.  Otherwise
    those characters keep after == -1 (before == -1), which is no slot index."""
    from .util import reaches_avoiding
    fn = fx.one('graphite2::Segment::associateChars')

    def defs_of(vid):
        out = []
        for _, d in fn.elements():
            if d['k'] == 'DeclStmt':
                out.extend((d, x_['init']) for x_ in d.get('decls', []) if x_.get('vid') == vid and x_.get('init') is not None)
            elif d['k'] == 'BinaryOperator' and d['op'] == '=' and fn.strip_all_casts(d['c'][0])['k'] == 'DeclRefExpr' and fn.strip_all_casts(d['c'][0]).get('vid') == vid:
                out.append((d, d['c'][1]))
        return out

    def steps_of(vid):
        return [u for _, u in fn.elements() if u['k'] == 'UnaryOperator' and u.get('op') in ('pre++', 'post++', 'pre--', 'post--')
                and fn.strip_all_casts(u['c'][0]).get('vid') == vid] + \
               [u for _, u in fn.elements() if u['k'] == 'CompoundAssignOperator' and u.get('op') in ('+=', '-=') and fn.strip_all_casts(u['c'][0]).get('vid') == vid]

    def walks(expr, site, depth=0):
        """{(origin accessor or None, direction)} of the walk(s) over characters in which `expr`, evaluated at `site`, takes its values"""
        out = set()
        for y in fn.walk(expr):
            if y['k'] == 'CXXMemberCallExpr' and (y.get('fq') or '') in ('graphite2::Slot::after', 'graphite2::Slot::before') and not y.get('args'):
                out.add((y['fq'].split('::')[-1], None))
            if y['k'] == 'DeclRefExpr' and y.get('vid') is not None and depth < 4 and y.get('dk', 'Var') != 'ParmVar':
                ds = defs_of(y['vid'])
                alld = [d for d, _ in ds]
                for d, rhs in ds:
                    if not reaches_avoiding(fn, d, site, [x for x in alld if x is not d]):
                        continue
                    sub = walks(rhs, d, depth + 1)
                    dirs = set()
                    for u in steps_of(y['vid']):
                        if reaches_avoiding(fn, d, u, [x for x in alld if x is not d]):
                            dirs.add('forward' if u.get('op') in ('pre++', 'post++', '+=') else 'backward')
                    if not sub:
                        sub = {(None, None)}
                    for o, dr in sub:
                        for nd in (dirs or {dr}):
                            out.add((o, nd if nd is not None else dr))
        return out

    sites = {'after': [], 'before': []}
    for e in calls_in(fn):
        fq = e.get('fq') or ''
        if fq not in ('graphite2::CharInfo::after', 'graphite2::CharInfo::before') or not e.get('args'):
            continue
        if fn.strip_all_casts(e['args'][0]).get('v') is not None:
            continue                # the reset to -1
        sites[fq.split('::')[-1]].append((e, walks(fn.strip_all_casts(e['obj']), e)))
    for own, need, what in (('after', ('before', 'backward'), 'leading'), ('before', ('after', 'forward'), 'trailing')):
        inst = '%s run gets char.%s' % (what, own)
        good = [(e, w) for e, w in sites[own] if need in w or (w and all(o is None for o, _ in w))]
        if not sites[own]:
            run.broken('CINFO', inst, 'no store of char.%s found in associateChars' % own, fn.where())
        elif good:
            e, w = good[0]
            run.held('CINFO', inst, fn.loc(e), 'set in a walk that %s' % ('goes %s from Slot::%s()' % (need[1], need[0]) if need in w else 'covers the characters independent of slot ranges'))
        else:
            run.violated('CINFO', inst, fn.where(), 'a %s run of characters that no slot claimed (their slots were deleted without ASSOC) is reached only by a walk going %s from '
                         'Slot::%s() or by a pass over all characters; no store of char.%s sits in such a walk (walks of the stores: %s), so those characters keep %s == -1, '
                         'which is not a slot index' % (what, need[1], need[0], own, [sorted(w, key=str) for _, w in sites[own]], own))


def assocpasses(run, fx):
    """associateChars is a sequence of passes (reset, the slots' own ranges, the extensions over unclaimed characters, ...): every
    pass that stores a before / after runs on every call -- no path from the entry to the return goes around its loop, except on an
    edge that says there is nothing to associate (no slots / no characters).  Whether a pass `would have had nothing to do' for
    other reasons (e.g. as many slots as characters) is a fact about run-time contents that no test of counts establishes."""
    fn = fx.one('graphite2::Segment::associateChars')
    from .util import loops_around
    heads = {}
    for e in calls_in(fn):
        fq = e.get('fq') or ''
        if fq in ('graphite2::CharInfo::after', 'graphite2::CharInfo::before', 'graphite2::Slot::after', 'graphite2::Slot::before') and e.get('args'):
            b = fn.block_of[e['i']]
            ls = loops_around(fn, b)                                # the loops whose body contains the store
            if ls:
                outer = ls[-1]                                       # the outermost loop around the store
                heads.setdefault(outer, []).append(e)
    if len(heads) < 3:
        run.broken('CINFO', 'passes of associateChars', 'expected at least three passes that store before/after, found %d' % len(heads), fn.where())
        return
    nothing = lambda f: f[1] == '==' and f[2] == '0' and (f[0] in ('this->m_first', 'numChars', 'this->m_numGlyphs', 'this->m_numCharinfo') or f[0].endswith('slotCount()'))
    cut = dom.edges_with(fn, nothing)
    for h, es in sorted(heads.items(), key=lambda kv: -kv[0]):
        inst = 'pass @%s runs on every call' % (fn.blocks[h].get('term') or {}).get('ln')
        seen, st, bad = set(), [(fn.entry, None)], None
        while st:
            b, via = st.pop()
            if b in seen or b == h:
                continue
            seen.add(b)
            if b == fn.exit:
                bad = via
                break
            for idx, s_ in enumerate(fn.blocks[b]['succ']):
                if s_ is None or (b, idx) in cut:
                    continue
                c_ = fn.term_cond(b)
                st.append((s_, (b, idx) if c_ is not None and len(fn.blocks[b]['succ']) == 2 and via is None or c_ is not None and len(fn.blocks[b]['succ']) == 2 else via))
        if bad is None:
            run.held('CINFO', inst, fn.loc(es[0]), '%d stores of before/after in this pass; no path around it' % len(es))
        else:
            c_ = fn.term_cond(bad[0])
            run.violated('CINFO', inst, '%s:%s' % (fn.file, (fn.blocks[bad[0]].get('term') or {}).get('ln')), 'associateChars can return without running the pass at line %s '
                         '(which stores %s): the path leaves through the branch on `%s`, which does not say that there are no slots or no characters -- characters a rule left '
                         'unclaimed keep before/after == -1 and slots keep ranges that do not cover them'
                         % ((fn.blocks[h].get('term') or {}).get('ln'), sorted({(e.get('fq') or '').split('::', 1)[1] for e in es}), fn.render(fn.strip(c_)) if c_ is not None else '?'))


def _walker_range(fn, call, which):
    """Slot::after(X) / Slot::before(X) in associateChars where X is a walker stepped over unclaimed neighbours: X stays inside
    [slot's old after(), offset + numChars - 1] (resp. [offset, slot's old before()]) because (1) the walker starts one beyond
    the slot's own after() (before()), (2) its only step inside a loop goes one way and is guarded, in that iteration, by the
    comparison with offset + numChars (offset), (3) what is stored is the walker one step back.  Returns the reason or None."""
    from . import linear
    from .util import loops_around, reaches_avoiding
    fwd = which == 'after'
    X = call['args'][0]
    xt, xc = linear.lin(fn, X)
    vars_ = [(t, c) for t, c in xt.items()]
    if len(vars_) != 1 or vars_[0][1] != 1:
        return None
    vname = vars_[0][0]
    refs = [x for x in fn.walk(X) if x['k'] == 'DeclRefExpr' and x.get('vid') is not None and fn.render(x) == vname]
    if not refs:
        return None
    vid = refs[0]['vid']
    defs, steps = [], []
    for _, u in fn.elements():
        if u['k'] == 'DeclStmt':
            defs.extend((u, x_['init']) for x_ in u.get('decls', []) if x_.get('vid') == vid and x_.get('init') is not None)
            continue
        if not u.get('c') or u['c'][0] is None:
            continue
        t_ = fn.strip_all_casts(u['c'][0])
        if t_['k'] != 'DeclRefExpr' or t_.get('vid') != vid:
            continue
        if u['k'] == 'BinaryOperator' and u.get('op') == '=':
            defs.append((u, u['c'][1]))
        elif u['k'] == 'UnaryOperator' and u.get('op') in ('pre++', 'post++', 'pre--', 'post--'):
            steps.append((u, 1 if '++' in u['op'] else -1))
        elif u['k'] == 'CompoundAssignOperator' and u.get('op') in ('+=', '-=') and fn.strip_all_casts(u['c'][1]).get('v') == 1:
            steps.append((u, 1 if u['op'] == '+=' else -1))
        elif u['k'] == 'CompoundAssignOperator':
            return None
    alld = [d for d, _ in defs]
    reach = [(d, rhs) for d, rhs in defs if reaches_avoiding(fn, d, call, [x for x in alld if x is not d])]
    if len(reach) != 1:
        return None
    d0, rhs = reach[0]
    it, ic = linear.lin(fn, rhs)
    getter = 'graphite2::Slot::' + which
    anchor = [t for t in it if t.endswith('.%s()' % which) or t.endswith('->%s()' % which)]
    if len(it) != 1 or len(anchor) != 1 or it[anchor[0]] != 1 or ic != (1 if fwd else -1):
        return None
    # steps of this walk: those the definition reaches without another definition in between
    mine = [(u, dr) for u, dr in steps if reaches_avoiding(fn, d0, u, [x for x in alld if x is not d0])]
    cl = loops_around(fn, fn.block_of[call['i']])
    inloop = [(u, dr) for u, dr in mine if [h for h in loops_around(fn, fn.block_of[u['i']]) if h not in cl]]
    post = [(u, dr) for u, dr in mine if (u, dr) not in inloop]
    if len(inloop) != 1 or inloop[0][1] != (1 if fwd else -1):
        return None
    su = inloop[0][0]
    guard = None
    for cond, pol in dom.edge_guards(fn, fn.block_of[su['i']]):
        for at, p in dom.atoms(fn, cond, pol):
            for t, c in linear.lower_bounds(fn, at, p):
                if fwd and t.get(vname) == -1 and c <= -1:
                    rest = {k_: c_ for k_, c_ in t.items() if k_ != vname}
                    if sorted(rest.values()) == [1, 1] and any('numChars' in k_ for k_ in rest) and any(k_ == 'offset' for k_ in rest):
                        guard = fn.render(fn.strip(at))
                if not fwd and t.get(vname) == 1 and c <= 0:
                    rest = {k_: c_ for k_, c_ in t.items() if k_ != vname}
                    if rest == {'offset': -1}:
                        guard = fn.render(fn.strip(at))
    if guard is None:
        return None
    # the steps after the loop all lie on the way to the call
    k = 0
    for u, dr in post:
        if not reaches_avoiding(fn, su, u) and not reaches_avoiding(fn, d0, u):
            return None
        if not (fn.block_of[u['i']] in fn.dominators()[fn.block_of[call['i']]]):
            return None
        if fn.block_of[u['i']] == fn.block_of[call['i']] and fn.pos_of[u['i']] > fn.pos_of[call['i']]:
            continue
        k += dr
    if k + xc != (-1 if fwd else 1):
        return None
    return 'walker from %s%+d, stepped only under `%s`, stored one step back: stays within the text and never short of the slot\'s own %s()' % (anchor[0], ic, guard, which)


def assocdom(run, fx):
    n = 0
    for q in SETTERS:
        for fn, e in callers_of(fx, q):
            if not e.get('args') or fn.f['unit'] == 'direct_machine.cpp':
                continue
            n += 1
            a = fn.strip_all_casts(e['args'][0])
            txt = fn.render(a)
            inst = '%s(%s) in %s@%s' % (q.split('::')[-1], txt[:40], fn.q.split('::')[-1], e['ln'])
            ok = False
            why = ''
            def closed(x, depth=0):
                x = fn.strip_all_casts(x)
                if x['k'] == 'CXXMemberCallExpr' and x.get('fq') in GETTERS and not x.get('args'):
                    return 'value of another slot\'s %s()' % x['fq'].split('::')[-1]
                if x['k'] == 'ConditionalOperator' and depth < 3:
                    l, r = closed(x['c'][1], depth + 1), closed(x['c'][2], depth + 1)
                    return '%s or %s' % (l, r) if l and r else None
                if x['k'] == 'DeclRefExpr' and x.get('vid') in fn.const_init and depth < 3:
                    return closed(fn.const_init[x['vid']], depth + 1)          # a local that stands for one expression
                return None
            cf = closed(a)
            if not cf and fn.q == 'graphite2::Segment::associateChars':
                cf = _walker_range(fn, e, q.split('::')[-1])
            if cf:
                ok = True
                why = cf
            elif a['k'] == 'DeclRefExpr' and (fn.q, a['d'].split('::')[-1]) in ACCUMULATORS:
                var = a['d'].split('::')[-1]
                why = ACCUMULATORS[(fn.q, var)]
                ok = True
                if fn.q.endswith('::assoc'):
                    # every assignment to the accumulator is a slot getter (or the -1 initialiser), and the use is under min > -1
                    for _, s in fn.elements():
                        if s['k'] == 'BinaryOperator' and s['op'] == '=' and fn.render(fn.N(s['c'][0])) == var:
                            r = fn.strip_all_casts(s['c'][1])
                            if not (r['k'] == 'CXXMemberCallExpr' and r.get('fq') in GETTERS):
                                ok = False
                                why = 'accumulator %s assigned from %s' % (var, fn.render(r))
                    if not any(dom.implies(f[:3], ('min', '>', '-1')) for f in dom.facts_at(fn, e['i'])):
                        ok = False
                        why = 'use of %s not dominated by min > -1' % var
            if ok:
                run.held('ASSOCDOM', inst, fn.loc(e), why, a['k'] != 'DeclRefExpr')
            else:
                run.violated('ASSOCDOM', inst, fn.loc(e), 'a character index is stored into a slot from `%s`, which is not one of the closed forms (another slot\'s '
                             'before()/after()/original(), defaultOriginal(), the tabled accumulators): char associations can leave [0, n) %s' % (txt, why))
    # direct field writers outside the setters stay unreachable
    fw = field_writes(fx)
    for f in ('graphite2::Slot::m_before', 'graphite2::Slot::m_after', 'graphite2::Slot::m_original'):
        ws = set(fn.q for fn, e, k in fw.get(f, []))
        extra = ws - {'graphite2::Slot::Slot', 'graphite2::Slot::before', 'graphite2::Slot::after', 'graphite2::Slot::originate', 'graphite2::Slot::set', 'graphite2::Slot::update'}
        if extra:
            run.violated('ASSOCDOM', 'writers of %s' % f.split('::')[-1], '', '%s is written directly by %s' % (f, sorted(extra)))
    if callers_of(fx, 'graphite2::Slot::set') or callers_of(fx, 'graphite2::Slot::update'):
        run.violated('ASSOCDOM', 'Slot::set / Slot::update unreachable', '', 'the offset-adding writers Slot::set / Slot::update are called again')
    else:
        run.held('ASSOCDOM', 'Slot::set / Slot::update unreachable', '', 'no caller of the two offset-adding leftovers of the segment cache', False)
    if n < 18:
        run.broken('ASSOCDOM', '*', 'only %d setter call sites found (20 confirmed)' % n)


def cinfo(run, fx):
    for fn in fx.fns_named('graphite2::Segment::charinfo'):
        cond = [e for _, e in fn.elements() if e['k'] == 'ConditionalOperator']
        ok = False
        pn = fn.f['params'][0]['n'] if fn.f.get('params') else 'index'
        for e in cond:
            for at, pol in dom.atoms(fn, fn.N(e['c'][0]), True):
                if dom.implies(dom.norm(fn, at, pol), (pn, '<', 'this->m_numCharinfo')) and \
                        'm_charinfo' in fn.render(fn.N(e['c'][1])) and fn.is_null(e['c'][2]):
                    ok = True
        inst = 'Segment::charinfo %s' % ('const' if fn.f.get('const') else 'non-const')
        if ok:
            run.held('CINFO', inst, fn.where(), 'index < m_numCharinfo ? m_charinfo + index : NULL')
        else:
            run.violated('CINFO', inst, fn.where(), 'Segment::charinfo(index) lost its `index < m_numCharinfo` bounds test: gr_seg_cinfo reads past the char-info array')
    g = fx.one('gr_seg_cinfo')
    if calls_in(g, 'graphite2::Segment::charinfo'):
        run.held('CINFO', 'gr_seg_cinfo', g.where(), 'goes through Segment::charinfo', False)
    else:
        run.violated('CINFO', 'gr_seg_cinfo', g.where(), 'gr_seg_cinfo bypasses the bounds-checked accessor')


def assocexec(run, fx, maxc=4, maxs=3):
    """CINFO by bounded abstract execution (rules/ordint.py): Segment::associateChars, with the CharInfo / Slot accessors and
    Segment::charinfo inlined from their own CFGs, is interpreted on every segment of 1..maxc characters and 0..maxs slots, every slot
    carrying every association range [before, after] inside the text (the closed provenance ASSOCDOM establishes).  Afterwards, C05's
    clauses hold: when the segment has slots, every char-info's before and after are slot indices in [0, n_slots) with before <= after,
    every character index lies in the [before, after] range of at least one slot, every slot's range is still inside the text, and the
    slot indices are 0..n-1 in stream order."""
    import itertools
    from . import ordint as O
    fn = fx.one('graphite2::Segment::associateChars')
    PS, PC, PG = 'graphite2::Slot::', 'graphite2::CharInfo::', 'graphite2::Segment::'
    srec, crec, grec = fx.record('graphite2::Slot'), fx.record('graphite2::CharInfo'), fx.record('graphite2::Segment')
    from .util import setter_field
    CB = setter_field(fx, 'graphite2::CharInfo::before', PC + 'm_before')      # members by role (through their setters): a rename does not misplace the inputs
    CA = setter_field(fx, 'graphite2::CharInfo::after', PC + 'm_after')
    SB = setter_field(fx, 'graphite2::Slot::before', PS + 'm_before')
    SA = setter_field(fx, 'graphite2::Slot::after', PS + 'm_after')
    SI = setter_field(fx, 'graphite2::Slot::index', PS + 'm_index')
    SN = setter_field(fx, 'graphite2::Slot::next', PS + 'm_next')

    def mk(rec, pfx):
        r = O.Rec()
        for f in rec['fields']:
            r[pfx + f['n']] = O.Ptr(None) if '*' in (f.get('t') or '') else None
        return r
    cases = 0
    for nc in range(1, maxc + 1):
        ranges = [(a, b) for a in range(nc) for b in range(a, nc)]
        for ns in range(0, maxs + 1):
            for assign in itertools.product(ranges, repeat=ns):
                cases += 1
                chars = O.Vec([mk(crec, PC) for _ in range(nc)])
                for c in chars.items:
                    c[CB] = 77          # stale values from a previous association must not survive
                    c[CA] = 77
                slots = [mk(srec, PS) for _ in range(ns)]
                for k, sl in enumerate(slots):
                    sl[SB], sl[SA] = assign[k]
                    sl[SI] = 55
                    sl[SN] = O.Ptr(slots[k + 1]) if k + 1 < ns else O.Ptr(None)
                seg = mk(grec, PG)
                seg[PG + 'm_charinfo'] = O.It(chars, 0)
                seg[PG + 'm_numCharinfo'] = nc
                seg[PG + 'm_numGlyphs'] = ns            # C12 COUNTSYNC / C02 GROWTH keep the count in step with the stream
                seg[PG + 'm_dir'] = 0
                seg[PG + 'm_first'] = O.Ptr(slots[0]) if ns else O.Ptr(None)
                seg[PG + 'm_last'] = O.Ptr(slots[-1]) if ns else O.Ptr(None)
                it = O.Interp(fx)
                it.MAX_STEPS = 6000
                try:
                    it.call(fn, seg, [0, nc])
                except O.Violation as v:
                    return cases, '%d characters, slot ranges %s: %s (%s)' % (nc, list(assign), v.what, v.loc)
                if not ns:
                    continue
                desc = '%d characters, %d slots with [before,after] = %s' % (nc, ns, list(assign))
                for k, sl in enumerate(slots):
                    if sl[SI] != k:
                        return cases, '%s: slot %d gets index %r' % (desc, k, sl[SI])
                    b, a = sl[SB], sl[SA]
                    if not (isinstance(b, int) and isinstance(a, int) and 0 <= b <= a < nc):
                        return cases, '%s: afterwards slot %d has before=%r after=%r, not a range inside the text' % (desc, k, b, a)
                for j, c in enumerate(chars.items):
                    b, a = c[CB], c[CA]
                    if not (isinstance(b, int) and isinstance(a, int) and 0 <= b < ns and 0 <= a < ns):
                        return cases, '%s: char-info %d ends with before=%r after=%r, not slot indices in [0,%d)' % (desc, j, b, a, ns)
                    if not any(sl[SB] <= j <= sl[SA] for sl in slots):
                        return cases, '%s: character %d lies in no slot\'s [before,after] range afterwards' % (desc, j)
    return cases, None


def charinfo_always(run, fx):
    """ONEPERCHAR, the callee's side: read_text counts every character it hands to appendSlot, so appendSlot fills that character's
    char-info (init / base) on every path -- the only exit in front of it is the failure of Segment::newSlot itself (a local that is
    initialised by exactly that call and tested null).  A glyph the font does not have is still a character of the text."""
    from .util import reaches_avoiding
    fn = fx.one('graphite2::Segment::appendSlot')
    inst = 'appendSlot fills the char-info on every path but allocation failure'
    inits = [e for _, e in fn.elements() if (e.get('fq') or '').endswith('CharInfo::init')]
    bases = [e for _, e in fn.elements() if (e.get('fq') or '').endswith('CharInfo::base') and e.get('args')]
    if not inits or not bases:
        run.broken('ONEPERCHAR', inst, 'CharInfo::init / base calls not found in appendSlot', fn.where())
        return
    pure = set()
    for _, e in fn.elements():
        if e['k'] == 'DeclStmt':
            for d in e.get('decls', []):
                if d.get('init') is not None and (fn.strip_all_casts(fn.N(d['init'])).get('fq') or '').endswith('Segment::newSlot'):
                    pure.add(d['n'])
    cut = dom.edges_with(fn, lambda f: f[0] in pure and f[1] == '==' and f[2] == '0')
    stop = {fn.block_of[inits[0]['i']]}
    seen, todo, leak = set(), [fn.entry], None
    while todo:
        b_ = todo.pop()
        if b_ is None or b_ in seen or b_ in stop:
            continue
        seen.add(b_)
        rets = [x for x in fn.blocks[b_]['el'] if x['k'] == 'ReturnStmt']
        if rets or b_ == fn.exit:
            leak = rets[0] if rets else None
            break
        for idx_, x_ in enumerate(fn.blocks[b_]['succ']):
            if (b_, idx_) not in cut:
                todo.append(x_)
    if leak is not None or (fn.exit in seen):
        run.violated('ONEPERCHAR', inst, fn.loc(leak) if leak is not None else fn.where(), 'Segment::appendSlot can return before it has filled m_charinfo[id] on a path that is not the failure of newSlot() '
                     '(locals that hold exactly a newSlot() result: %s): read_text has already counted the character, so its char-info keeps code point 0 and base 0 -- the bases are no longer '
                     'strictly increasing and one slot is missing from the count' % (sorted(pure) or 'none'))
    else:
        run.held('ONEPERCHAR', inst, fn.loc(inits[0]), 'CharInfo::init is reached on every path except `%s == 0`' % '/'.join(sorted(pure)))


def ptflow(run, fx, rule='ASSOCDOM'):
    """ASSOCDOM, the plumbing behind "INSERT / DELETE only before the character associations are made": the loader refuses those opcodes
    when the code it analyses belongs to a positioning or justification pass, and it knows the pass type only because
    Silf::readGraphite -> Pass::readPass -> Pass::readRules -> Machine::Code::Code hand it down.  Every link passes on the pass type IT
    was given: the rule ACTION's Code is constructed with readRules' own pass-type parameter (constraints may not modify the stream at
    all, whatever type they are given), and readPass calls readRules with its own."""
    rr, rp = fx.one('graphite2::Pass::readRules'), fx.one('graphite2::Pass::readPass')
    inst = 'the pass type reaches the code loader of every rule action'

    def ptparam(fn):
        ps = [p for p in (fn.f.get('params') or []) if (p.get('t') or '').replace('const ', '').strip().endswith('passtype')]
        return ps[0].get('n') if len(ps) == 1 else None
    prr, prp = ptparam(rr), ptparam(rp)
    if not prr or not prp:
        run.broken(rule, inst, 'readRules / readPass no longer take exactly one passtype parameter', rr.where())
        return
    ctor_key = None
    acts = []
    for _, e in rr.elements():
        if e['k'] in ('CXXConstructExpr', 'CXXTemporaryObjectExpr') and (e.get('fq') or '').endswith('Machine::Code::Code') and len(e.get('args') or e.get('c') or []) >= 8:
            if e.get('args') is None:
                e = dict(e, args=e.get('c'))
            first = rr.strip_all_casts(rr.N(e['args'][0]))
            if first.get('v') in (0, False):
                acts.append(e)
    if len(acts) != 1:
        run.broken(rule, inst, 'expected one construction of a rule action\'s Code (first argument false) in Pass::readRules, found %d' % len(acts), rr.where())
        return
    e = acts[0]
    callee = fx.fn(e.get('fm')) if e.get('fm') in fx.raw['functions'] else None
    cps = (callee.f.get('params') or []) if callee else []
    idx = [k for k, p in enumerate(cps) if (p.get('t') or '').replace('const ', '').strip().endswith('passtype')]
    if len(idx) != 1 or idx[0] >= len(e['args']):
        run.broken(rule, inst, 'the passtype parameter of Machine::Code::Code was not found', rr.loc(e))
        return
    def through_consts(fn, n):
        n = fn.strip_all_casts(n)
        k = 0
        while n.get('k') == 'DeclRefExpr' and n.get('vid') in fn.const_init and k < 8:
            n = fn.strip_all_casts(fn.N(fn.const_init[n['vid']]))        # a `const passtype kind = pt;` local is the parameter under another name
            k += 1
        return n
    given = through_consts(rr, rr.N(e['args'][idx[0]]))
    if not (given.get('k') == 'DeclRefExpr' and given.get('pi') is not None and rr.render(given) == prr):
        run.violated(rule, inst, rr.loc(e), 'Pass::readRules constructs the rule action\'s code with the pass type `%s`, not with the type of the pass being read (`%s`): the loader\'s refusal of INSERT / '
                     'DELETE in positioning and justification passes never sees such a pass -- a font can delete or insert slots after associateChars, and the char-infos then point at slots that '
                     'are gone or miss the new ones' % (rr.render(given), prr))
        return
    calls = [c for _, c in rp.elements() if c['k'] in ('CXXMemberCallExpr', 'CallExpr') and (c.get('fq') or '').endswith('Pass::readRules')]
    if len(calls) != 1:
        run.broken(rule, inst, 'expected one readRules call in Pass::readPass, found %d' % len(calls), rp.where())
        return
    c = calls[0]
    k = [j for j, p in enumerate(rr.f.get('params') or []) if p.get('n') == prr][0]
    a = through_consts(rp, rp.N(c['args'][k]))
    if not (a.get('k') == 'DeclRefExpr' and a.get('pi') is not None and rp.render(a) == prp):
        run.violated(rule, inst, rp.loc(c), 'Pass::readPass calls readRules with the pass type `%s`, not its own `%s`' % (rp.render(a), prp))
        return
    run.held(rule, inst, rr.loc(e), 'readPass(%s) -> readRules(%s) -> Code(.., %s, ..)' % (prp, prr, prr))


def run(run):
    vm = R.get_vm(run)
    fx = vm.fx
    oneperchar(run, fx)
    charinfo_always(run, fx)
    assocdom(run, fx)
    ptflow(run, fx)
    cinfo(run, fx)
    gapfill(run, fx)
    edgefill(run, fx)
    assocpasses(run, fx)
    from . import c03
    c03.nomutpos(run, vm)        # no pass that runs after associateChars may insert or delete slots: the loader types every pass from m_pPass on as POSITIONING or later (shared with C03)
    from .util import share as _share
    if not getattr(run, '_sharing', False):
        run._sharing = True
        try:
            _share(run, 'c03', ['INDEX', 'LINKSYM', 'GROWTH'], 'CINFO')      # slot indices and the stream the char-infos point into (shared with C03)
            _share(run, 'c11', ['LEADREJECT'], 'ONEPERCHAR')               # what counts as one character (shared with C11)
        finally:
            run._sharing = False
    from . import c19 as c19_
    from .util import OnlyRules
    c19_.justify_rules(OnlyRules(run, ['RESTORE'], {'RESTORE': 'NOMUTPOS'}), fx)      # gr_seg_justify gives the segment its own first / last slot back: the characters of the lines in front stay covered (shared with C19)
    from . import c04 as c04_
    ipc_ = 'PUT_COPY leaves the current slot a live, correctly linked slot (interpreted)'
    try:
        cases_, bad_ = c04_.putcopy_exec(run, vm)      # a slot that stays marked DELETED is freed while still linked: the stream runs into the free list and the char-info indices point nowhere (shared with C04)
        if bad_:
            run.violated('CINFO', ipc_, vm.handlers['put_copy'].where(), bad_)
        else:
            run.held('CINFO', ipc_, vm.handlers['put_copy'].where(), '%d abstract executions' % cases_)
    except AnalysisBroken as ex:
        run.broken('CINFO', ipc_, str(ex), '')
    ac = fx.one('graphite2::Segment::associateChars')
    try:
        cases, prob = assocexec(run, fx)
        if prob:
            run.violated('CINFO', 'associateChars leaves every character covered and every index in range', ac.where(), prob)
        else:
            run.held('CINFO', 'associateChars leaves every character covered and every index in range', ac.where(), '%d abstract executions: every text of 1..4 characters x 0..3 slots x every association range' % cases)
    except AnalysisBroken as ex:
        run.broken('CINFO', 'associateChars leaves every character covered and every index in range', str(ex), ac.where())
    from . import width
    width.no_narrow(run, fx, 'CINFO', [('Slot::original', 'graphite2::Slot::originate'), ('Slot::before', 'graphite2::Slot::before'),
                                       ('Slot::after', 'graphite2::Slot::after'), ('CharInfo::before', 'graphite2::CharInfo::before'),
                                       ('CharInfo::after', 'graphite2::CharInfo::after'), ('CharInfo::base', 'graphite2::CharInfo::base'),
                                       'graphite2::Segment::m_numCharinfo'])
    c12.nulstop(run, fx)
    c12.countsync(run, fx)
    from .util import OnlyRules as _Only
    c12.ncharsflow(_Only(run, ['TEXTFLOW'], {'TEXTFLOW': 'ONEPERCHAR'}), fx)       # 'exactly n char-infos ... the decoded input characters in order': nothing between the caller and the loop drops or skips one (shared with C12)
    try:
        c12.textexec(run, fx)            # "exactly n char-infos ... in order ... strictly increasing code-unit offsets", decided for UTF-16/32 (shared with C12)
    except AnalysisBroken as ex:
        run.broken('NULSTOP', 'engine', str(ex))
    c11.advancebound(run, fx)
    c03.nomutpos(run, vm)
