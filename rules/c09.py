"""C09 -- a preloaded face and an unhinted font can be shared by concurrent shapers.

Schedules are quantified away by showing that the write set on shared memory is EMPTY under
the documented preconditions (gr_face_preloadAll, fonts without advance callbacks):
  DEEPCONST   (as C08) the only shared stores reachable from the shaping / query API are the
              three tabled lazy-cache fills, each under its empty-slot guard
  PRELOAD     GlyphCache's constructor, on the preload path, always reaches `_glyph_loader = 0`
              (so the guard of GlyphCache::glyph is false for the face's lifetime)
  NAMEPRELOAD Face::readGlyphs calls nameTable() under the preload option, and nameTable()
              falsifies its own guard on every path (found or not found)
  UNHINTED    every call of Font::advance is dominated by font->isHinted(), and m_hinted is
              false when no advance callback is supplied
  NOCALLBACK  the application callbacks are called only by Face::Table's constructor/release and
              Font::advance, and are unreachable from the shaping API once the lazy fills are cut
  PARTITION   SHARED classes hold no pointer to per-call objects
"""
from . import effrules as ER
from . import c08rules, dom
from .facts import AnalysisBroken
from .util import calls_in, callers_of, field_writes

LEVEL = 'other'
EXPLANATION = ('Race freedom for all thread schedules is decided as an effect property: the set of instructions reachable from the '
               'shaping / query API that write face- or font-owned memory is computed on whole-library LLVM IR (ownership lattice, as '
               'C08) and must consist only of the three tabled lazy-cache fills; path rules on the AST then show each fill is dead '
               'under the documented preconditions (loader deleted after preload, name table looked up once at load, hinted-advance '
               'cache reachable only for hinted fonts), and the table/advance callbacks are unreachable.  Two threads can only race '
               'on memory both can reach and one writes; with an empty shared write set no schedule races.  That every thread '
               'obtains the sequential result follows from C08 and is not separately decided.')
FLOORS = {'DEEPCONST': 3, 'PRELOAD': 2, 'NAMEPRELOAD': 2, 'UNHINTED': 3, 'NOCALLBACK': 4, 'PARTITION': 20}


def alloc_failure_returns(fn):
    """blocks that are reachable only when a just-allocated pointer tested null"""
    alloc_vars = set()
    for _, e in fn.elements():
        if e['k'] == 'DeclStmt':
            for d in e['decls']:
                if d.get('init') is not None:
                    for x in fn.walk(d['init']):
                        if x['k'] == 'CXXNewExpr' or (x.get('fq') or '').split('<')[0] in ('graphite2::gralloc', 'graphite2::grzeroalloc', 'malloc', 'calloc', 'realloc'):
                            alloc_vars.add(d['n'])
    out = set()
    for b in fn.blocks:
        for f in dom.facts_at_block(fn, b):
            if f[0] in alloc_vars and f[1] == '==' and f[2] == '0':
                out.add(b)
    return out


def preload(run, fx):
    gc = fx.one('graphite2::GlyphCache::GlyphCache')
    # region entry: blocks whose facts include (face_options & preloadGlyphs) != 0
    # (option set, loader alive, glyph array allocated: the cache is usable and preload was requested)
    def in_region(b):
        fs = dom.facts_at_block(gc, b)
        return (any('face_options' in f[0] and '&' in f[0] and f[1] == '!=' for f in fs)
                and any(f[:3] == ('this->_glyph_loader', '!=', '0') for f in fs)
                and any(f[:3] == ('this->_glyphs', '!=', '0') for f in fs))
    region = [b for b in gc.blocks if in_region(b)]
    if not region:
        raise AnalysisBroken('GlyphCache ctor: preload region not found')
    # the nulling store
    store = None
    for _, e in gc.elements():
        if e['k'] == 'BinaryOperator' and e['op'] == '=' and gc.render(gc.N(e['c'][0])) == 'this->_glyph_loader':
            v = gc.strip_all_casts(e['c'][1])
            if v.get('v') == 0 or v['k'] in ('CXXNullPtrLiteralExpr', 'GNUNullExpr'):
                store = e
    if store is None:
        run.violated('PRELOAD', 'loader dropped after preload', gc.where(), 'GlyphCache\'s constructor never sets _glyph_loader = 0: after a preload '
                     'the lazy path of GlyphCache::glyph (a write to the shared cache) stays enabled')
        return
    sb = gc.block_of[store['i']]
    exempt = alloc_failure_returns(gc)
    # entry of the region = region block all other region blocks are dominated by
    domt = gc.dominators()
    entry = [b for b in region if all(b in domt[x] for x in region)]
    if not entry:
        raise AnalysisBroken('GlyphCache ctor: preload region has no single entry')
    entry = entry[0]
    # can the function exit be reached from entry without passing sb (ignoring alloc-failure blocks)?
    seen, st = set(), [entry]
    escaped = None
    while st:
        b = st.pop()
        if b in seen or b == sb or b in exempt:
            continue
        seen.add(b)
        if b == gc.exit:
            escaped = b
            break
        st.extend(gc.succs(b))
    if escaped is None:
        run.held('PRELOAD', 'loader dropped after preload', gc.loc(store), 'every non-allocation-failure path through the preload region reaches '
                 '_glyph_loader = 0 (%d exempt allocation-failure blocks)' % len(exempt))
    else:
        run.violated('PRELOAD', 'loader dropped after preload', gc.loc(store), 'a path through the preload region leaves the constructor with the '
                     'glyph loader still alive: GlyphCache::glyph would keep writing the shared cache lazily on a preloaded face')
    # the delete precedes it
    dels = [e for _, e in gc.elements() if e['k'] == 'CXXDeleteExpr' and '_glyph_loader' in gc.render(e)]
    if dels:
        run.held('PRELOAD', 'loader deleted', gc.loc(dels[0]), 'delete _glyph_loader', False)
    else:
        run.violated('PRELOAD', 'loader deleted', gc.where(), 'the loader (7 borrowed tables) is no longer deleted after preload')


def namepreload(run, fx):
    rg = fx.one('graphite2::Face::readGlyphs')
    nt = calls_in(rg, 'graphite2::Face::nameTable')
    ok = False
    for e in nt:
        fs = dom.facts_at(rg, e['i'])
        if any('faceOptions' in f[0] and '&' in f[0] and f[1] == '!=' for f in fs):
            ok = True
            site = e
    rets = [e for _, e in rg.elements() if e['k'] == 'ReturnStmt' and rg.strip_all_casts(e['c'][0]).get('v') == 1]
    bypass = False
    if ok and rets:
        # every path to `return true` on which the option is set passes the call
        cb = rg.block_of[site['i']]
        rbs = {rg.block_of[r['i']] for r in rets}
        optblocks = [b for b in rg.blocks if any('faceOptions' in f[0] and 'gr_face_preloadGlyphs' in f[0] and f[1] == '!=' for f in dom.facts_at_block(rg, b))]
        domt = rg.dominators()
        ent = [b for b in optblocks if all(b in domt[x] for x in optblocks)]
        if not ent:
            raise AnalysisBroken('Face::readGlyphs: preload option region has no single entry')
        seen, st = set(), [ent[0]]
        while st:
            b = st.pop()
            if b in seen or b == cb:
                continue
            seen.add(b)
            if b in rbs:
                bypass = True
                break
            st.extend(rg.succs(b))
    if ok and rets and bypass:
        run.violated('NAMEPRELOAD', 'readGlyphs preloads the name table', rg.loc(site), 'with gr_face_preloadGlyphs set Face::readGlyphs can return '
                     'true without having called nameTable() (the call is under an additional condition): the first label query on a '
                     'preloaded face then calls get_table and writes Face::m_pNames')
    elif ok and rets:
        run.held('NAMEPRELOAD', 'readGlyphs preloads the name table', rg.loc(site), 'nameTable() called under faceOptions & gr_face_preloadGlyphs')
    else:
        run.violated('NAMEPRELOAD', 'readGlyphs preloads the name table', rg.where(), 'Face::readGlyphs no longer calls nameTable() under '
                     'gr_face_preloadGlyphs: the first label query on a preloaded face calls get_table and writes Face::m_pNames')
    nf = fx.one('graphite2::Face::nameTable')
    # guard fields: those compared in the early-return condition
    tab = [e for _, e in nf.elements() if e['k'] in ('CXXConstructExpr', 'CXXTemporaryObjectExpr') and (e.get('fq') or '').startswith('graphite2::Face::Table::Table')]
    if not tab:
        raise AnalysisBroken('Face::nameTable: Face::Table construction not found')
    tb = nf.block_of[tab[0]['i']]
    guard_fields = set()
    for f in dom.facts_at_block(nf, tb):
        if f[1] == '==' and f[2] == '0' and f[0].startswith('this->'):
            guard_fields.add(f[0])
    pdom = nf.postdominators()
    falsified = None
    for _, e in nf.elements():
        if e['k'] == 'BinaryOperator' and e['op'] == '=':
            l = nf.render(nf.N(e['c'][0]))
            if l in guard_fields and nf.block_of[e['i']] in pdom[tb]:
                v = nf.strip_all_casts(e['c'][1])
                txt = nf.render(v)
                # a flag that is true whenever the pointer guard stays null, or an unconditional non-null
                # the flag is set to true, or to a test that is true exactly when another guard field stayed null
                if v.get('v') == 1:
                    falsified = e
                else:
                    ats = [dom.norm(nf, a, p) for a, p in dom.atoms(nf, e['c'][1], True)]
                    if len(ats) == 1 and ats[0][0] in guard_fields and ats[0][0] != l and ats[0][1] == '==' and ats[0][2] == '0':
                        falsified = e
    if falsified:
        run.held('NAMEPRELOAD', 'nameTable asks once', nf.loc(falsified), 'guard %s falsified on every path after the lookup (%s)'
                 % (sorted(guard_fields), nf.render(falsified)))
    else:
        run.violated('NAMEPRELOAD', 'nameTable asks once', nf.loc(tab[0]),
                     'Face::nameTable leaves its guard (%s) unchanged when the font has no usable name table: every later label query calls '
                     'get_table again and re-enters the fill region, also on faces created with gr_face_preloadAll' % sorted(guard_fields))


def unhinted(run, fx):
    sites = callers_of(fx, 'graphite2::Font::advance')
    if len(sites) < 2:
        raise AnalysisBroken('expected at least 2 call sites of Font::advance, found %d' % len(sites))
    for fn, e in sites:
        inst = 'Font::advance call in %s' % fn.q
        fs = dom.facts_at(fn, e['i'])
        ok = [f for f in fs if 'isHinted()' in f[0] and f[1] == '!=' and f[2] == '0']
        if ok:
            run.held('UNHINTED', inst, fn.loc(e), 'dominated by %s' % (ok[0][:3],))
        else:
            run.violated('UNHINTED', inst, fn.loc(e), 'Font::advance (lazy write into the shared m_advances cache, application callback) is called '
                         'without the dominating font->isHinted() test: unhinted fonts shared between threads now race on m_advances',
                         {'facts': [f[:3] for f in fs]})
    fc = [f for f in fx.fns_named('graphite2::Font::Font') if not f.f.get('implicit')]
    for f in fc:
        for _, e in f.elements():
            if e['k'] == 'Init' and e.get('field') == 'graphite2::Font::m_hinted':
                hinted_tests_handle(run, f, e, 'UNHINTED')
    fontops_exec(run, fx, 'UNHINTED')          # what m_hinted comes out as, decided by interpreting the constructor (not by the spelling of its initialiser)
    ih = fx.one('graphite2::Font::isHinted')
    rets = [ih.render(ih.strip_all_casts(e['c'][0])) for _, e in ih.elements() if e['k'] == 'ReturnStmt']
    if rets == ['this->m_hinted']:
        run.held('UNHINTED', 'isHinted', ih.where(), 'returns m_hinted', False)
    else:
        run.violated('UNHINTED', 'isHinted', ih.where(), 'Font::isHinted returns %s' % rets)


def fontops_exec(run, fx, rule='UNHINTED'):
    """which fonts count as hinted, by bounded execution (rules/ordint.py): Font::Font is interpreted for every combination of
    application handle {NULL, given} x ops {NULL, given} x glyph_advance_x {NULL, fn} x glyph_advance_y {NULL, fn}.  Afterwards
      * the font is hinted ONLY if the application gave a handle, an ops structure and a horizontal advance callback (a font made with
        gr_make_font, or with empty ops, is unhinted: shapers may share it, and its positions are the design-unit ones scaled);
      * a hinted font's m_ops.glyph_advance_x -- the one callback the library calls (Font::advance) -- is the application's, never null
        (ops that carry only the y callback are legal: "can be NULL to signify no horizontal hinted metrics are necessary");
      * an unhinted font's glyph_advance_x is the library's own default, so a stray Font::advance still lands in the library."""
    from . import ordint as O
    PF = 'graphite2::Font::'
    ctors = [f for f in fx.fns_named('graphite2::Font::Font') if not f.f.get('implicit') and len(f.f.get('params') or []) == 4]
    inst = 'Font::Font: hinted exactly when handle, ops and the x callback are given; the callback it keeps is callable (interpreted)'
    if len(ctors) != 1:
        run.broken(rule, inst, 'Font::Font(ppm, face, handle, ops) not found')
        return
    fn = ctors[0]
    frec = fx.record('graphite2::Font')
    orec = fx.raw['records'].get('gr_font_ops')
    if orec is None or [f['n'] for f in orec['fields']] != ['size', 'glyph_advance_x', 'glyph_advance_y']:
        run.broken(rule, inst, 'gr_font_ops is not {size, glyph_advance_x, glyph_advance_y} any more', fn.where())
        return
    names = [orec['q'] + '::' + f['n'] for f in orec['fields']]
    cases = 0
    try:
        for handle in (False, True):
            for have_ops in (False, True):
                for hx in (False, True):
                    for hy in (False, True):
                        if not have_ops and (hx or hy):
                            continue
                        font = O.Rec()
                        for f in frec['fields']:
                            font[PF + f['n']] = None
                        font[PF + 'm_ops'] = O.Rec({n: 'garbage' for n in names})
                        FX, FY = O.Rec({'#fn': 'x'}), O.Rec({'#fn': 'y'})
                        ops = O.Rec({names[0]: 24, names[1]: O.Ptr(FX if hx else None), names[2]: O.Ptr(FY if hy else None)})

                        def rec_of(x):
                            if isinstance(x, O.PtrLV):
                                return x.lv.load()
                            if isinstance(x, O.LV):
                                return x.load()
                            return x.rec if isinstance(x, O.Ptr) else x

                        def memset_(I, f, e, obj, a):
                            d, n = rec_of(I.rv(a[0])), I.rv(a[2])
                            if d is not font[PF + 'm_ops']:
                                raise AnalysisBroken('memset of something other than m_ops')
                            for k, nm in enumerate(names):
                                if 8 * (k + 1) <= n:
                                    d[nm] = 0 if k == 0 else O.Ptr(None)
                            return I.rv(a[0])

                        def memcpy_(I, f, e, obj, a):
                            d, s_, n = rec_of(I.rv(a[0])), rec_of(I.rv(a[1])), I.rv(a[2])
                            if d is not font[PF + 'm_ops'] or s_ is not ops:
                                raise AnalysisBroken('memcpy of something other than m_ops <- ops')
                            if n > 24:
                                raise O.Violation('%d bytes are copied into the 24-byte m_ops' % n, f.loc(e))
                            for k, nm in enumerate(names):
                                if 8 * (k + 1) <= n:
                                    d[nm] = ops[nm]
                            return I.rv(a[0])
                        nat = {'memset': memset_, 'memcpy': memcpy_,
                               'graphite2::Face::glyphs': lambda I, f, e, obj, a: O.Rec({'#gc': 1}),
                               'graphite2::GlyphCache::unitsPerEm': lambda I, f, e, obj, a: 1000,
                               'graphite2::GlyphCache::numGlyphs': lambda I, f, e, obj, a: 2,
                               'graphite2::gralloc': lambda I, f, e, obj, a: O.It(O.Vec(['?'] * 2), 0)}
                        it = O.Interp(fx, natives=nat)
                        it.MAX_STEPS = 4000
                        cases += 1
                        H = O.Rec({'#handle': 1})
                        it.call(fn, font, [12, O.LV([O.Rec({'#face': 1})], 0), O.Ptr(H if handle else None), O.Ptr(ops if have_ops else None)])
                        hinted = bool(font[PF + 'm_hinted'])
                        cb = font[PF + 'm_ops'].get(names[1])
                        cbr = cb.rec if isinstance(cb, O.Ptr) else cb
                        desc = 'gr_make_font_with_ops(handle %s, ops %s%s)' % ('given' if handle else 'NULL', 'given' if have_ops else 'NULL',
                                                                               (': glyph_advance_x %s, glyph_advance_y %s' % ('set' if hx else 'NULL', 'set' if hy else 'NULL')) if have_ops else '')
                        if hinted and not (handle and have_ops and hx):
                            why = ('the only callback the library calls is glyph_advance_x, which this font does not have: Font::advance calls a null function pointer inside gr_make_seg' if cbr is None
                                   else 'the advance callback is called with the Font object as the handle' if not handle else 'the font takes the hinted path')
                            run.violated(rule, inst, fn.where(), '%s: the font counts as hinted -- %s' % (desc, why))
                            return
                        if hinted and cbr is not FX:
                            run.violated(rule, inst, fn.where(), '%s: the font is hinted but m_ops.glyph_advance_x is %s, not the application\'s callback' % (desc, 'null' if cbr is None else repr(cbr)))
                            return
                        if not hinted and handle and have_ops and hx:
                            run.violated(rule, inst, fn.where(), '%s: the font counts as unhinted although the application supplied its horizontal advances' % desc)
                            return
                        if not hinted and not isinstance(cb, O.Fnref) and cbr is None:
                            run.violated(rule, inst, fn.where(), '%s: an unhinted font is left with a null glyph_advance_x' % desc)
                            return
    except O.Violation as v:
        run.violated(rule, inst, fn.where(), '%s (%s)' % (v.what, v.loc))
        return
    except AnalysisBroken as ex:
        run.broken(rule, inst, str(ex), fn.where())
        return
    run.held(rule, inst, fn.where(), '%d constructions' % cases)


def hinted_tests_handle(run, f, e, rule):
    """a font is hinted only when the application gave a handle: the conjunct of m_hinted's initialiser that tests the handle tests the
    caller's value, not a member that was given a never-null default (`m_appFontHandle(appFontHandle ? appFontHandle : this)`): with
    that member the test is always true and a font made with callbacks but no handle calls them with the Font object as the handle"""
    inits = {x.get('field'): x for _, x in f.elements() if x['k'] == 'Init' and x.get('field') and x.get('init') is not None}
    dead = []
    for n in f.walk(e['init']):
        if n['k'] == 'MemberExpr' and n.get('dk') == 'Field' and n.get('d') in inits and n['d'] != e['field']:
            iv = f.strip_all_casts(f.N(inits[n['d']]['init']))
            if iv['k'] == 'ConditionalOperator' and any(f.strip_all_casts(f.N(a))['k'] == 'CXXThisExpr' for a in iv['c'][1:]):
                dead.append((n, iv))
    inst = 'm_hinted tests the caller\'s handle'
    if dead:
        n, iv = dead[0]
        run.violated(rule, inst, f.loc(e), 'the initialiser of m_hinted tests %s, which the constructor initialised as `%s`: it is never null, so the test the font relies on to stay '
                     'unhinted without an application handle is always true (gr_make_font_with_ops(ppm, NULL, ops, face) now calls ops->glyph_advance_x with the gr_font itself as the handle)'
                     % (f.render(n), f.render(iv)))
    else:
        run.held(rule, inst, f.loc(e), 'no never-null member among the tested values')


def nocallback(run, E, reach, cuts):
    ir = E.ir
    want = {'EXTERNAL:get_table': {'graphite2::Face::Table::Table'}, 'EXTERNAL:release_table': {'graphite2::Face::Table::release'},
            'EXTERNAL:glyph_advance_x': {'graphite2::Font::advance', 'graphite2::Font::Font'},
            'EXTERNAL:glyph_advance_y': set()}
    got = {}
    for n, ins, kind in E.indirect:
        if kind['kind'] == 'external':
            got.setdefault(kind['name'], set()).add(ir.funcs[n]['dem'].split('(')[0])
    for ext, allowed in want.items():
        g = got.get(ext, set())
        inst = 'callers of %s' % ext
        extra = g - allowed
        if extra:
            run.violated('NOCALLBACK', inst, '', 'application callback %s is invoked from %s; only %s may call it (borrow discipline / '
                         'no callback during shaping)' % (ext, sorted(extra), sorted(allowed)))
        else:
            run.held('NOCALLBACK', inst, '', 'called only from %s' % sorted(g), False)
    for ext in ('EXTERNAL:get_table', 'EXTERNAL:release_table', 'EXTERNAL:glyph_advance_x', 'EXTERNAL:glyph_advance_y'):
        inst = '%s unreachable from shaping' % ext
        if ext in reach:
            path = ER._path_to(E, [e for e in ER.api_entries(ir) if e not in ER.ENTRY_LOAD], ext, cuts)
            run.violated('NOCALLBACK', inst, '', 'the application callback is reachable from the shaping/query API outside the tabled lazy fills: %s'
                         % ' -> '.join(path[:8]))
        else:
            run.held('NOCALLBACK', inst, '', 'not reachable once the guarded lazy fills are cut')
    # who constructs Face::Table (each construction is one get_table)
    allowed_ctor = {'load_face', 'graphite2::GlyphCache::Loader::Loader', 'graphite2::DirectCmap::DirectCmap', 'graphite2::CachedCmap::CachedCmap',
                    'graphite2::FeatureMap::readFeats', 'graphite2::SillMap::readFace', 'graphite2::SillMap::readSill', 'graphite2::Face::nameTable',
                    'graphite2::Face::Table::operator=', 'graphite2::Face::Table::Table', '(anonymous namespace)::load_face',
                    'graphite2::Face::readGraphite', 'graphite2::Silf::readGraphite'}
    ctors = [f for f in ir.funcs.values() if f['dem'].startswith('graphite2::Face::Table::Table(graphite2::Face const&')]
    if not ctors:
        raise AnalysisBroken('Face::Table(const Face&, Tag, uint32) not found in IR')
    callers = set()
    for n, f in ir.funcs.items():
        for ins in f['ins']:
            if ins['op'] == 'call' and ir.aliases.get(ins.get('callee'), ins.get('callee')) in [c['name'] for c in ctors]:
                callers.add(f['dem'].replace('(anonymous namespace)', '{anon}').split('(')[0].replace('{anon}', '(anonymous namespace)'))
    extra = callers - allowed_ctor
    if extra:
        run.violated('NOCALLBACK', 'Face::Table constructors', '', 'a table is borrowed (get_table) from %s, which is not a tabled load-time site' % sorted(extra))
    else:
        run.held('NOCALLBACK', 'Face::Table constructors', '', 'borrowed only in %s' % sorted(callers), False)


# the one tabled exception, present only in builds with tracing compiled in (the IR-level NOGLOBAL tables the same object, rules/eff.py)
NOGLOBAL_OK = {'global_log': 'the process-wide json logger of gr_start_logging(NULL, ..): logging is excluded from the thread contract by the documentation'}


def noglobal_ast(run, fx):
    """NOGLOBAL on the declarations themselves, for the code the linked IR of this configuration does not contain (the other VM driver is
    parsed but not linked): no variable at namespace scope or static data member in src/ is mutable.  A file-scope `exit_status` in
    call_machine.cpp is written by every thread whose rule program stops early."""
    n, bad = 0, []
    seen = set()
    for v in fx.raw['vars']:
        if not (v.get('file') or '').startswith('src/') or (v['q'], v['file'], v.get('ln')) in seen:
            continue
        seen.add((v['q'], v['file'], v.get('ln')))
        n += 1
        if not v.get('const') and not (v['q'].split('::')[-1] in NOGLOBAL_OK and 'json' in (v.get('t') or '')):
            bad.append(v)
    inst = 'no mutable namespace-scope variable in src/'
    if n < 30:
        run.broken('NOGLOBAL', inst, 'only %d namespace-scope variables seen' % n)
    elif bad:
        v = bad[0]
        run.violated('NOGLOBAL', inst, '%s:%s' % (v['file'], v.get('ln')), '`%s %s` is a mutable variable with static storage: every thread that shapes writes / reads the same object '
                     '(it is outside the face, the font and the segment the documentation lets threads share or own)' % (v.get('t'), v['q']))
    else:
        run.held('NOGLOBAL', inst, '', '%d namespace-scope / static-member variables, all const' % n)


def telescope(run, reach=None):
    """NOGLOBAL in the telemetry build (cmake -DGRAPHITE2_TELEMETRY=ON): every allocation adds to *telemetry::_category, a process-wide
    pointer into the face being loaded.  Shaping threads allocate concurrently, so the pointer must be back to its pre-load value (null)
    when gr_make_face returns: the scope guard telemetry::category saves the previous value in its constructor and its destructor puts
    it back on every path (unconditionally: Pass::readStates switches the category with the raw set_category() inside a guard's
    scope), and every raw set_category() call sits in a function that declared a guard before it."""
    fx = run.facts('tele')
    dt = fx.fns_named('graphite2::telemetry::category::~category')
    ct = fx.fns_named('graphite2::telemetry::category::category')
    if not dt or not ct:
        run.broken('NOGLOBAL', 'telemetry scope guard', 'telemetry::category constructor / destructor not found in the telemetry configuration', '')
        return
    dt, ct = dt[0], ct[0]
    G = 'graphite2::telemetry::_category'

    def stores(fn):
        return [e for _, e in fn.elements() if e['k'] == 'BinaryOperator' and e['op'] == '=' and fn.strip(e['c'][0]).get('d') == G]
    saved = [e.get('field') for _, e in ct.elements() if e['k'] == 'Init' and e.get('init') is not None and any(w.get('d') == G for w in ct.walk(e['init']))]
    inst = 'the allocation category is restored when a guard dies'
    rest = [e for e in stores(dt) if dt.strip_all_casts(dt.N(e['c'][1])).get('d') in saved]
    if not saved:
        run.violated('NOGLOBAL', inst, ct.where(), 'telemetry::category no longer saves the previous category in its constructor')
    elif not rest:
        run.violated('NOGLOBAL', inst, dt.where(), 'telemetry::category::~category does not store the saved category back into telemetry::_category')
    else:
        blocks = set(dt.block_of[e['i']] for e in rest)
        seen, st, path = set(), [(dt.entry, [dt.entry])], None
        while st:
            b, p_ = st.pop()
            if b in seen or b in blocks:
                continue
            seen.add(b)
            if b == dt.exit:
                path = p_
                break
            st.extend((x, p_ + [x]) for x in dt.succs(b) if x is not None)
        if path:
            run.violated('NOGLOBAL', inst, dt.where(), 'a path through telemetry::category::~category (blocks %s) leaves telemetry::_category as it is: Pass::readStates changes the category with '
                         'set_category() inside the guard\'s scope, so after gr_make_face the process-wide pointer still points into the face loaded last, and every allocation of '
                         'every shaping thread does an unsynchronised `*_category += n` on that shared face (and writes to freed memory once it is destroyed)' % path)
        else:
            run.held('NOGLOBAL', inst, dt.where(), 'saved in %s, stored back on every path of the destructor' % saved)
    n = 0
    for fn in fx.all_fns():
        for e in calls_in(fn, 'graphite2::telemetry::set_category'):
            n += 1
            guards = [d for _, d in fn.elements() if d['k'] == 'DeclStmt' and any('telemetry::category' in (x.get('t') or '') for x in d.get('decls', []))]
            ok = [g for g in guards if (fn.block_of[g['i']] != fn.block_of[e['i']] and fn.block_of[g['i']] in fn.dominators()[fn.block_of[e['i']]])
                  or (fn.block_of[g['i']] == fn.block_of[e['i']] and fn.pos_of[g['i']] < fn.pos_of[e['i']])]
            i2 = 'raw set_category in %s @%s' % (fn.q.split('graphite2::')[-1], e['ln'])
            if ok:
                run.held('NOGLOBAL', i2, fn.loc(e), 'inside the scope of the guard declared at line %s' % ok[0]['ln'])
            else:
                run.violated('NOGLOBAL', i2, fn.loc(e), '%s switches the allocation category with set_category() without a telemetry::category guard declared before it: nothing puts the '
                             'previous category back' % fn.q)
    if n < 2:
        run.broken('NOGLOBAL', 'raw set_category calls', 'expected the two calls in Pass::readStates, found %d' % n, '')
    # ... and the category is only ever switched while a face is being LOADED: no function that shaping, querying or destroying can
    # reach (the call graph of the default build, from every entry point that is not a face constructor) declares a guard or calls
    # set_category -- there the write to the process-wide pointer, and the `*_category += n` of every allocation while it points
    # into the shared face, would race between threads
    if reach is not None:
        inst = 'the allocation category is switched at load time only'
        users = []
        for fn in fx.all_fns():
            uses = [d for _, d in fn.elements() if d['k'] == 'DeclStmt' and any('telemetry::category' in (x.get('t') or '') for x in d.get('decls', []))]
            uses += calls_in(fn, 'graphite2::telemetry::set_category')
            if uses and not fn.q.startswith('graphite2::telemetry::'):
                users.append((fn, uses[0]))
        bad = [(fn, u) for fn, u in users if fn.f.get('m') in reach]
        if len(users) < 4:
            run.broken('NOGLOBAL', inst, 'expected the guards of load_face, readGlyphs, readGraphite, readPass, readStates and Code::Code; found %d function(s)' % len(users), '')
        elif bad:
            fn, u = bad[0]
            run.violated('NOGLOBAL', inst, fn.loc(u), '%s switches the telemetry category (line %s) and is reachable from an entry point other than the face constructors: in a telemetry build every '
                         'thread that shapes on the shared face writes the process-wide telemetry::_category and adds to the same counter in the face, unsynchronised' % (fn.q, u.get('ln')))
        else:
            run.held('NOGLOBAL', inst, users[0][0].where(), '%d functions, none reachable from a shaping / query / destroy entry point' % len(users))


def run(run):
    E = ER.setup(run)
    fx = E.fx
    entries = [e for e in ER.api_entries(E.ir) if e not in ER.ENTRY_LOAD]
    run.analysed['entry_points'] = len(entries)
    reach, cuts, lazyfn, sw = ER.deepconst(run, E, 'DEEPCONST', entries, lazy_enabled=True)
    try:
        telescope(run, reach)
    except AnalysisBroken as ex:
        run.broken('NOGLOBAL', 'telemetry scope guard', str(ex), '')
    ER.noglobal(run, E, 'NOGLOBAL', reach)
    noglobal_ast(run, fx)
    preload(run, fx)
    namepreload(run, fx)
    from . import c10
    c10.optentry(run, fx)        # gr_face_preloadAll only helps if the caller's options word is the one the face is built with
    unhinted(run, fx)
    nocallback(run, E, reach, cuts)
    c08rules.partition(run, fx, 'PARTITION')
    run.assume('callers do not share a gr_segment / gr_feature_val between threads while one of them mutates it (documented)')
    run.assume('logging (gr_start_logging) is excluded from the thread contract by the documentation')
    run.assume('allocation failure is outside the quantifier (schedules)')
