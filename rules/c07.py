"""C07 -- the stack machine follows the opcode spec; both interpreter builds agree."""
from . import vmrules as R
from . import drivers

LEVEL = 'other'
EXPLANATION = ('The handler bound at opcode_table[n] for every opcode n in C07\'s scope (0x00-0x18, 0x30-0x32, 0x3E-0x41) is '
               'normalised from its type-checked AST/CFG into its effect (net stack movement, the bit-vector expression stored in '
               'each cell with explicit widths and explicitly signed operators, operand bytes claimed, exit kind) and compared '
               'structurally with a spec table keyed by on-disk opcode number (SIG); table/enum/decoder/handler agreement (TABLE, '
               'PARAMSZ, STACKMODEL), stack excursion within the guard cells (VMSTACK), division and signed-overflow guards '
               '(DIVGUARD, NOSIGNEDOVF); the two interpreter drivers are compared construct by construct (DRIVERS).  Values are '
               'never evaluated: the normal form quantifies over all operand values.  Equality of shaping output between the two '
               'builds is NOT decided -- only the structural agreement that is its necessary condition.')
FLOORS = {'SIG': 32, 'TABLE': 60, 'PARAMSZ': 55, 'VMSTACK': 60, 'STACKMODEL': 30, 'DIVGUARD': 1, 'NOSIGNEDOVF': 50, 'DRIVERS': 90, 'DERIVED': 1}


def run(run):
    vm = R.get_vm(run)
    R.sig(run, vm)
    R.table(run, vm)
    R.paramsz(run, vm)
    R.vmstack(run, vm)
    R.stackmodel(run, vm)
    R.divguard(run, vm)
    R.nosignedovf(run, vm)
    drivers.check(run, vm)
    from . import c02
    c02.derived(run, vm.fx)        # the operand bytes the handlers claim are read through _data
    run.assume('clang 14 and gcc agree on the C++ semantics of the handler bodies (integer promotions, conversions)')
    run.observe('doc/OpCodes.adoc lists 0x3E as BitAnd and 0x3F as BitOr; enum opcode, opcode_table names, the handlers and every font '
                'producer use 0x3E = OR, 0x3F = AND: documentation rows swapped, spec follows the on-disk numbering')
