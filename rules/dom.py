"""DOM engine: which predicates are known to hold (with which polarity) at a program point.

edge_guards(fn, block)  -> [(cond node, polarity)] for every two-way branch edge that every path
                           from the entry to `block` must take
atoms(fn, cond, pol)    -> the atomic facts implied by `cond == pol`
                           (&&-true, ||-false and ! are decomposed; Error::test(p, E) counts as p;
                            pointer/integer-to-bool conversions count as `x != 0`)
norm(fn, atom, pol)     -> (lhs, op, rhs) canonical comparison with rendering over resolved
                           declarations; op in < <= > >= == != ; truthiness is (x, '!=', '0')
"""
from .facts import AnalysisBroken

FLIP = {'<': '>', '>': '<', '<=': '>=', '>=': '<=', '==': '==', '!=': '!='}
NEG = {'<': '>=', '>': '<=', '<=': '>', '>=': '<', '==': '!=', '!=': '=='}


def _reach(fn, target, removed_edge):
    """is `target` reachable from the entry when edge removed_edge=(from, succ_index) is cut?"""
    seen = set()
    st = [fn.entry]
    while st:
        b = st.pop()
        if b in seen:
            continue
        seen.add(b)
        if b == target:
            return True
        for idx, s in enumerate(fn.blocks[b]['succ']):
            if s is None or (b, idx) == removed_edge:
                continue
            st.append(s)
    return False


def edge_guards(fn, block, cache=None):
    key = ('eg', block)
    store = fn.__dict__.setdefault('_eg_cache', {})
    if key in store:
        return store[key]
    out = []
    dom = fn.dominators()
    for d in dom[block]:
        blk = fn.blocks[d]
        succ = blk['succ']
        if len(succ) != 2 or succ[0] == succ[1]:
            continue
        cond = fn.term_cond(d)
        if cond is None:
            continue
        for idx, pol in ((0, True), (1, False)):
            if succ[idx] is None:
                continue
            if d == block:
                continue
            # must every path to `block` use edge d->succ[idx]?  cut the OTHER edge is not the test; cut THIS
            # edge and see whether block stays reachable
            if not _reach(fn, block, (d, idx)):
                out.append((cond, pol))
    store[key] = out
    return out


def atoms(fn, cond, pol, inline=True, cond_expand=True):
    """decompose cond==pol into atomic (node, polarity) facts"""
    out = []
    depth = [0]

    def rec(n, p):
        n = fn.strip(n)
        k = n['k']
        if k == 'UnaryOperator' and n['op'] == '!':
            return rec(n['c'][0], not p)
        if k == 'BinaryOperator' and n['op'] == '&&':
            if p:
                rec(n['c'][0], True)
                rec(n['c'][1], True)
            else:
                out.append((n, False))
            return
        if k == 'BinaryOperator' and n['op'] == '||':
            if not p:
                rec(n['c'][0], False)
                rec(n['c'][1], False)
            else:
                out.append((n, True))
            return
        if k == 'ImplicitCastExpr' and n.get('ck') in ('PointerToBoolean', 'IntegralToBoolean', 'IntegralCast'):
            return rec(n['c'][0], p)
        if k == 'BinaryOperator' and n['op'] in ('==', '!=') and depth[0] < 3:
            # `x == NULL` / `x != 0` on a pointer is the truthiness of x
            for a_, b_ in ((n['c'][0], n['c'][1]), (n['c'][1], n['c'][0])):
                if fn.is_null(b_) and '*' in (fn.strip_all_casts(a_).get('t') or '') and not fn.is_null(a_):
                    return rec(a_, p == (n['op'] == '!='))
        if k == 'CXXMemberCallExpr' and (n.get('fq') or '') == 'graphite2::Error::test':
            return rec(n['args'][0], p)
        if k == 'CXXMemberCallExpr' and (n.get('fq') or '').endswith('::operator bool') and n.get('obj') is not None:
            out.append((n, p))
            return
        rdef = None
        if k == 'DeclRefExpr' and n.get('vid') is not None and n.get('vid') not in fn.const_init and depth[0] < 3 and n.get('i') is not None \
                and (n.get('t') or '').replace('const ', '') in ('bool', '_Bool'):
            rdef = fn.reaching_def(n['vid'], n['i'])          # `bool adv = a || b; if (!adv) ...` with adv re-assigned later
            if rdef is None and p:
                # `bool ok = A; if (ok) ok = B; if (ok) ...`: two definitions reach, the second one guarded by the first: ok is A && B
                ds = fn.reaching_def(n['vid'], n['i'], all_defs=True)
                if ds and len(ds) == 2:
                    for d0, d1 in ((ds[0], ds[1]), (ds[1], ds[0])):
                        g = [(gc, gp) for gc, gp in edge_guards(fn, fn.block_of[d1])]
                        guarded = False
                        for gc, gp in g:
                            y = fn.strip(gc)
                            while y['k'] == 'ImplicitCastExpr' and y.get('c'):
                                y = fn.strip(y['c'][0])
                            if gp and y['k'] == 'DeclRefExpr' and y.get('vid') == n['vid'] and fn.reaching_def(n['vid'], y['i'], all_defs=True) == [d0]:
                                guarded = True
                        if guarded and depth[0] < 3:
                            depth[0] += 1
                            rec(fn.def_rhs(n['vid'], d0), True)
                            rec(fn.def_rhs(n['vid'], d1), True)
                            depth[0] -= 1
                            return
        if k == 'DeclRefExpr' and (n.get('vid') in fn.const_init or rdef is not None) and depth[0] < 3:
            # `const bool ok = a && b; if (!ok) fail;` -- the test is the initialiser's
            m = fn.strip(fn.const_init[n['vid']] if rdef is None else rdef)
            while m['k'] in ('ImplicitCastExpr', 'ParenExpr') and m.get('c'):
                m = fn.strip(m['c'][0])
            if (m['k'] == 'BinaryOperator' and m['op'] in ('&&', '||', '<', '>', '<=', '>=', '==', '!=')) or (m['k'] == 'UnaryOperator' and m['op'] == '!'):
                depth[0] += 1
                rec(m, p)
                depth[0] -= 1
                return
        out.append((n, p))
        if k in ('CallExpr', 'CXXMemberCallExpr') and inline:
            out.extend(_inline_predicate(fn, n, p))
        # `T *r = NULL; if (c) r = f(); if (!r) fail;` -- r != 0 means the one assignment ran: its guards held and f() != 0
        if k == 'DeclRefExpr' and p and cond_expand and depth[0] < 3 and n.get('vid') is not None:
            cd = _conditional_def(fn, n['vid'])
            if cd is not None:
                depth[0] += 1
                for gc, gp in edge_guards(fn, fn.block_of[cd['i']]):
                    rec(gc, gp)
                rec(cd['c'][1], True)
                depth[0] -= 1
        # `T * const r = c ? f() : NULL; if (!r) fail;` -- r != 0 means c held and f() != 0 (same for a conditional used directly)
        m = fn.deref(n) if p and depth[0] < 3 and cond_expand else None
        if m is not None and m['k'] == 'ConditionalOperator' and len(m.get('c') or []) == 3:
            c0, a1, a2 = m['c']
            sel = None
            if fn.is_null(a2) and not fn.is_null(a1):
                sel = (True, a1)
            elif fn.is_null(a1) and not fn.is_null(a2):
                sel = (False, a2)
            if sel is not None:
                depth[0] += 1
                rec(c0, sel[0])
                rec(sel[1], True)
                depth[0] -= 1

    rec(cond, pol)
    return out


def _conditional_def(fn, vid):
    """the single assignment `v = X` of a local that is initialised to null/0/false and never otherwise written or address-taken"""
    cache = fn.__dict__.setdefault('_cdef', {})
    if vid in cache:
        return cache[vid]
    cache[vid] = None
    decl = None
    for _, e in fn.elements():
        if e['k'] == 'DeclStmt':
            for d in e.get('decls', []):
                if d.get('vid') == vid:
                    decl = d
    if decl is None or decl.get('init') is None or not fn.is_null(decl['init']):
        return None
    par = fn.parents()
    assigns = []
    for _, e in fn.elements():
        if e['k'] == 'DeclRefExpr' and e.get('vid') == vid:
            for pi in par.get(e['i'], []):
                p_ = fn.nodes[pi]
                if p_['k'] == 'ImplicitCastExpr' and p_.get('ck') == 'LValueToRValue':
                    continue
                if p_['k'] == 'BinaryOperator' and p_['op'] == '=' and p_['c'][0] == e['i']:
                    assigns.append(p_)
                    continue
                return None
    if len(assigns) == 1:
        cache[vid] = assigns[0]
    return cache[vid]


def _inline_predicate(fn, call, pol):
    """`if (helper(a, b))` where the whole body of helper is `return <test>;`: the atoms of <test> in the caller's terms
    (one level; free functions only).  The call atom itself is kept as well."""
    fx = getattr(fn, 'fx', None)
    if fx is None or not call.get('fq'):
        return []
    cands = [g for g in fx.fns_named(call['fq']) if g.blocks and g.f.get('unit') == fn.f.get('unit')] or \
            [g for g in fx.fns_named(call['fq']) if g.blocks]
    if len(cands) != 1:
        return []
    g = cands[0]
    ps = g.f.get('params') or []
    args = [a for a in (call.get('args') or []) if a is not None]
    if len(ps) != len(args) or g is fn:
        return []
    expr = g.single_return_expr()
    if expr is None:
        return []
    env, envr = {}, {}
    if call['k'] == 'CXXMemberCallExpr':
        # a member predicate (`bool unset() const { return m_x < 0; }`): its `this` is the receiver
        if call.get('obj') is None or not _pure_expr(g, expr):
            return []
        env['this'] = fn.render(fn.strip_all_casts(call['obj']))
        envr['this'] = fn.render(fn.strip_all_casts(call['obj']), resolve=True)
    for p_, a in zip(ps, args):
        env[p_['vid']] = fn.render(fn.strip_all_casts(a))
        envr[p_['vid']] = fn.render(fn.strip_all_casts(a), resolve=True)
    out = []
    for a, p in atoms(g, expr, pol, inline=False):
        out.append(({'k': 'Inlined', 'fn': g, 'n': a, 'env': env, 'envr': envr, 'ln': call.get('ln'), 'col': call.get('col'), 'i': call.get('i'),
                     'member': call['k'] == 'CXXMemberCallExpr'}, p))
    return out


def _pure_expr(g, expr):
    """no assignment, increment or call of a non-const member in the expression"""
    for x in g.walk(expr):
        if x['k'] in ('CompoundAssignOperator',) or (x['k'] == 'BinaryOperator' and x.get('op') == '=') or \
                (x['k'] == 'UnaryOperator' and x.get('op') in ('pre++', 'post++', 'pre--', 'post--')):
            return False
    return True


def _cval(fn, x):
    """folded integer value of an operand: the first node of its cast chain that carries one (a named constant counts)"""
    n = fn.N(x)
    for _ in range(12):
        if n.get('v') is not None:
            return n['v']
        if (n['k'].endswith('CastExpr') or n['k'] in ('ParenExpr', 'ExprWithCleanups', 'MaterializeTemporaryExpr', 'ConstantExpr')) and n.get('c'):
            n = fn.N(n['c'][0])
            continue
        break
    if n['k'] == 'DeclRefExpr' and n.get('vid') in fn.const_init:
        m = fn.N(fn.const_init[n['vid']])
        for _ in range(8):
            if m.get('v') is not None:
                return m['v']
            if m.get('c') and (m['k'].endswith('CastExpr') or m['k'] in ('ParenExpr', 'ExprWithCleanups')):
                m = fn.N(m['c'][0])
                continue
            break
    return None


def norm_walk(fn, atom, pol, resolve=True):
    """the fact in the loop-position spelling (cfg.Fn.render_walk)"""
    if isinstance(atom, dict) and atom.get('k') == 'Inlined':
        return norm(fn, atom, pol, resolve=resolve)
    old, fn._walk = getattr(fn, '_walk', False), True
    try:
        return norm(fn, atom, pol, resolve=resolve)
    finally:
        fn._walk = old


def norm(fn, atom, pol, resolve=False):
    if isinstance(atom, dict) and atom.get('k') == 'Inlined':
        g, env = atom['fn'], (atom['envr'] if resolve else atom['env'])
        n = g.strip(atom['n'])
        rend = lambda x: g.render_in(g.strip_all_casts(x), env, resolve)
        if n['k'] == 'BinaryOperator' and n['op'] in FLIP:
            op = n['op'] if pol else NEG[n['op']]
            a, b = rend(n['c'][0]), rend(n['c'][1])
            av, bv = _cval(g, n['c'][0]), _cval(g, n['c'][1])
            return (str(av) if av is not None else a, op, str(bv) if bv is not None else b)
        return (rend(n), '!=' if pol else '==', '0')
    n = fn.strip(atom)
    if n['k'] == 'BinaryOperator' and n['op'] in FLIP:
        op = n['op'] if pol else NEG[n['op']]

        def operand(x):
            # `--x >= 0` is a fact about x (its value from here on); `x-- == 0` is about the old value and stays as written
            y = fn.strip_all_casts(x)
            if y['k'] == 'UnaryOperator' and y['op'] in ('pre--', 'pre++') and y.get('c'):
                y = fn.strip_all_casts(y['c'][0])
            return y
        a, b = fn.render(operand(n['c'][0]), resolve=resolve), fn.render(operand(n['c'][1]), resolve=resolve)
        av, bv = _cval(fn, n['c'][0]), _cval(fn, n['c'][1])
        if av is not None:
            a = str(av)
        if bv is not None:
            b = str(bv)
        return (a, op, b)
    r = fn.render(fn.strip_all_casts(n), resolve=resolve)
    return (r, '!=' if pol else '==', '0')


def facts_at_block(fn, block):
    out = []
    for cond, pol in edge_guards(fn, block):
        for a, p in atoms(fn, cond, pol):
            f1 = norm(fn, a, p) + (fn.loc(a) if 'ln' in a else '',)
            out.append(f1)
            f2 = norm(fn, a, p, resolve=True) + (fn.loc(a) if 'ln' in a else '',)
            if f2[:3] != f1[:3]:
                out.append(f2)          # the same fact with const locals replaced by their initialisers
    # every comparison also in its mirrored spelling (`a < b` is `b > a`): rules name the operand they are about first
    for f in list(out):
        if not _isint(f[2]) and f[1] in FLIP:
            g = (f[2], FLIP[f[1]], f[0]) + tuple(f[3:])
            if g not in out:
                out.append(g)
    return out


def facts_at(fn, elem_id):
    return facts_at_block(fn, fn.block_of[elem_id])


def implies(fact, want):
    """does the known fact (a, op, b) imply the wanted one?  Same operands (either order);
    constant thresholds are compared by strength."""
    a, op, b = fact[:3]
    wa, wop, wb = want
    if (a, b) == (wb, wa):
        a, op, b = b, FLIP[op], a
    if (a, b) == (wa, wb):
        if op == wop:
            return True
        table = {('<', '<='), ('<', '!='), ('>', '>='), ('>', '!='), ('==', '<='), ('==', '>=')}
        return (op, wop) in table
    # constant strength: a op K   implies   a wop K'
    if a == wa and _isint(b) and _isint(wb):
        k, wk = int(b), int(wb)
        if op in ('<', '<=') and wop in ('<', '<='):
            hi = k - 1 if op == '<' else k            # a <= hi
            whi = wk - 1 if wop == '<' else wk
            return hi <= whi
        if op in ('>', '>=') and wop in ('>', '>='):
            lo = k + 1 if op == '>' else k
            wlo = wk + 1 if wop == '>' else wk
            return lo >= wlo
        if op == '==' and wop in ('<', '<=', '>', '>=', '!='):
            return {'<': k < wk, '<=': k <= wk, '>': k > wk, '>=': k >= wk, '!=': k != wk}[wop]
    return False


def _isint(s):
    try:
        int(s)
        return True
    except (TypeError, ValueError):
        return False


def holds(fn, elem_or_block, want, is_block=False):
    fs = facts_at_block(fn, elem_or_block) if is_block else facts_at(fn, elem_or_block)
    for f in fs:
        if implies(f, want):
            return f
    return None


def edges_with(fn, pred):
    """branch edges (block, succ index) on which some implied atomic fact satisfies pred(fact)"""
    out = set()
    for b in fn.blocks:
        succ = fn.blocks[b]['succ']
        if len(succ) != 2 or succ[0] == succ[1]:
            continue
        c = fn.term_cond(b)
        if c is None:
            continue
        for idx, pol in ((0, True), (1, False)):
            for a, p in atoms(fn, c, pol):
                for f in (norm(fn, a, p), norm(fn, a, p, resolve=True)):
                    if pred(f) or (f[1] in FLIP and not _isint(f[2]) and pred((f[2], FLIP[f[1]], f[0]))):
                        out.add((b, idx))
    return out


def must_pass(fn, a_block, b_block, pred, start_after=True):
    """True when every path from a_block to b_block takes a branch edge that establishes a fact
    satisfying pred."""
    cut = edges_with(fn, pred)
    if not cut:
        return False
    seen, st = set(), [a_block]
    first = True
    while st:
        b = st.pop()
        if b in seen:
            continue
        seen.add(b)
        if b == b_block and not first:
            return False
        if b == b_block and first and not start_after:
            return False
        first = False
        for idx, s in enumerate(fn.blocks[b]['succ']):
            if s is None or (b, idx) in cut:
                continue
            st.append(s)
    return True
