/* F16 replay: a format 4 cmap whose first segment starts at U+0000 and holds more than one code point.
   gr_face_is_char_supported / the first glyph of a segment must be the same with and without gr_face_cacheCmap.
   Serves the tables of a real font through gr_face_ops, replacing only 'cmap'. */
#include <graphite2/Segment.h>
#include <stdio.h>
#include <stdlib.h>
#include <string.h>
static unsigned char *font; static long flen;
static unsigned be16(const unsigned char*p){return p[0]<<8|p[1];} static unsigned be32(const unsigned char*p){return (unsigned)p[0]<<24|p[1]<<16|p[2]<<8|p[3];}
static unsigned char cmap[64]; static size_t cmaplen;
static void w16(unsigned char*p,unsigned v){p[0]=v>>8;p[1]=v;}
static void build(void){ /* header + one (3,1) record + format 4 with segments [0,3]->gid 5.., [0xFFFF] */
  unsigned char*p=cmap; w16(p,0); w16(p+2,1); w16(p+4,3); w16(p+6,1); p[8]=0;p[9]=0;p[10]=0;p[11]=12; p+=12;
  unsigned n=2; w16(p,4); w16(p+2,16+8*n); w16(p+4,0); w16(p+6,2*n); w16(p+8,4); w16(p+10,1); w16(p+12,0); p+=14;
  w16(p,3); w16(p+2,0xFFFF); p+=4; w16(p,0); p+=2; w16(p,0); w16(p+2,0xFFFF); p+=4; w16(p,5); w16(p+2,1); p+=4; w16(p,0); w16(p+2,0); p+=4; cmaplen=p-cmap; }
static const void* get(const void*h,unsigned tag,size_t*len){ (void)h; if(tag==0x636d6170){*len=cmaplen;return cmap;}
  unsigned n=be16(font+4); for(unsigned i=0;i<n;i++){const unsigned char*r=font+12+16*i; if(be32(r)==tag){*len=be32(r+12);return font+be32(r+8);}} *len=0; return 0;}
int main(int argc,char**argv){ FILE*f=fopen(argv[1],"rb"); fseek(f,0,SEEK_END); flen=ftell(f); rewind(f); font=malloc(flen); if(fread(font,1,flen,f)!=(size_t)flen)return 2; build();
  gr_face_ops ops={sizeof(gr_face_ops),get,0}; int bad=0;
  gr_face*d=gr_make_face_with_ops(0,&ops,gr_face_default), *c=gr_make_face_with_ops(0,&ops,gr_face_cacheCmap); if(!d||!c){printf("face not loaded\n");return 2;}
  for(unsigned u=0;u<6;u++){int a=gr_face_is_char_supported(d,u,0),b=gr_face_is_char_supported(c,u,0); printf("U+%04X direct=%d cached=%d%s\n",u,a,b,a!=b?"   <-- differ":""); bad|=a!=b;}
  unsigned t[2]={1,0}; gr_segment*sd=gr_make_seg(0,d,0,0,gr_utf32,t,1,0),*sc=gr_make_seg(0,c,0,0,gr_utf32,t,1,0);
  if(sd&&sc){unsigned g1=gr_slot_gid(gr_seg_first_slot(sd)),g2=gr_slot_gid(gr_seg_first_slot(sc)); printf("U+0001 shapes to gid %u (direct) / %u (cached)\n",g1,g2); bad|=g1!=g2;}
  printf(bad?"CACHED AND DIRECT CMAP DISAGREE\n":"agree\n"); return bad; }
