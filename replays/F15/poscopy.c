#include <graphite2/Segment.h>
#include <stdio.h>
#include <string.h>
int main(int argc,char**argv){
  gr_face*f=gr_make_file_face(argv[1],0); if(!f){printf("no face\n");return 2;}
  const char*t=argv[2]; size_t n=strlen(t);
  gr_segment*s=gr_make_seg(0,f,0,0,gr_utf8,t,n,0); if(!s){printf("no seg\n");return 2;}
  int cnt=gr_seg_n_slots(s); int seen[64]={0}; int bad=0;
  for(const gr_slot*p=gr_seg_first_slot(s);p;p=gr_slot_next_in_segment(p)){unsigned i=gr_slot_index(p); printf("gid %d index %u\n",gr_slot_gid(p),i); if(i>=cnt||seen[i]++)bad=1;}
  printf(bad?"NOT a permutation\n":"permutation ok\n"); return bad;}
