#!/bin/sh
# usage: run.sh [src-root]   (default /repo) -- builds the library sources of that tree into a scratch dir and runs the replay
R=${1:-/repo}; D=$(mktemp -d /tmp/f27-XXXXXX); H=$(dirname $(readlink -f $0))
g++ -std=gnu++17 -O1 -g -fno-rtti -fno-exceptions -DGRAPHITE2_NTRACING -DGRAPHITE2_STATIC -I$R/include -I$R/src \
    $(ls $R/src/*.cpp | grep -v call_machine) -c 2>/dev/null -o /dev/null >/dev/null 2>&1
cd $D && for f in $(ls $R/src/*.cpp | grep -v call_machine); do g++ -std=gnu++17 -O1 -g -fno-rtti -fno-exceptions -DGRAPHITE2_NTRACING -DGRAPHITE2_STATIC -I$R/include -I$R/src -c $f & done; wait
gcc -DGRAPHITE2_STATIC -I$R/include -c $H/yonly.c -o yonly.o && g++ -o yonly yonly.o $(ls *.o | grep -v yonly.o) || { echo build failed; rm -rf $D; exit 3; }
./yonly $R/tests/fonts/Padauk.ttf; rc=$?
echo "replay exit status: $rc"; cd /; rm -rf $D; exit $rc
