/* F27: a gr_font whose ops carry only the y-advance callback (glyph_advance_x = NULL, which include/graphite2/Font.h allows:
   "This can be NULL to signify no horizontal hinted metrics are necessary") makes gr_make_seg call a null function pointer.
   usage: yonly <font.ttf>;  exit 0 = a segment comes back and equals the unhinted one, 1 = mismatch, (signal) = the defect */
#include <graphite2/Font.h>
#include <graphite2/Segment.h>
#include <stdio.h>
#include <string.h>
static float adv_y(const void *h, gr_uint16 g) { (void)h; (void)g; return 0.f; }
int main(int argc, char **argv)
{
    gr_face *face = gr_make_file_face(argv[1], gr_face_default);
    if (!face) return 2;
    gr_font_ops ops; memset(&ops, 0, sizeof ops);
    ops.size = sizeof ops; ops.glyph_advance_x = NULL; ops.glyph_advance_y = adv_y;
    int handle = 42;
    gr_font *fy = gr_make_font_with_ops(12.f, &handle, &ops, face);
    gr_font *fu = gr_make_font(12.f, face);
    const char *txt = "Hello";
    gr_segment *su = gr_make_seg(fu, face, 0, NULL, gr_utf8, txt, 5, 0);
    gr_segment *sy = gr_make_seg(fy, face, 0, NULL, gr_utf8, txt, 5, 0);
    if (!su || !sy) { printf("no segment\n"); return 1; }
    float a = gr_seg_advance_X(su), b = gr_seg_advance_X(sy);
    printf("advance unhinted %.3f, y-only ops %.3f\n", a, b);
    int rc = (a - b < 0.01f && b - a < 0.01f) ? 0 : 1;
    gr_seg_destroy(su); gr_seg_destroy(sy); gr_font_destroy(fy); gr_font_destroy(fu); gr_face_destroy(face);
    return rc;
}
