#!/bin/sh
# usage: run.sh [<graphite source tree>]   exit 0 = gr_make_file_face reads nothing outside the Silf table it was given
set -e
SRC=${1:-/repo}
H=$(cd "$(dirname "$0")" && pwd)
B=$(mktemp -d /tmp/f20-XXXXXX)
cmake -G Ninja -S "$SRC" -B "$B/build" -DCMAKE_BUILD_TYPE=RelWithDebInfo >/dev/null
cmake --build "$B/build" -j8 --target graphite2 >/dev/null
gcc -O1 -g -I"$SRC/include" "$H/load.c" -o "$B/load" -L"$B/build/src" -lgraphite2 -Wl,-rpath,"$B/build/src"
python3 "$H/font20.py" "$B/f20.ttf"
F20_NCLASS=100 python3 "$H/font20.py" "$B/f20c.ttf"
rc=0
echo "== F20: 0x7FFE classes with 16-bit offsets"
valgrind -q --error-exitcode=9 "$B/load" "$B/f20.ttf" 2>&1 | grep -E "Invalid read|face|by 0x.*(readClassMap|readGraphite)" | head -6
valgrind -q --error-exitcode=9 "$B/load" "$B/f20.ttf" >/dev/null 2>&1 || rc=$?
echo "== control: 100 classes"
valgrind -q --error-exitcode=9 "$B/load" "$B/f20c.ttf" 2>&1 | tail -1
rm -rf "$B"
exit $rc
