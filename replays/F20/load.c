#include <graphite2/Font.h>
#include <stdio.h>
int main(int argc, char **argv)
{
    gr_face *f = gr_make_file_face(argv[1], 0);
    printf("face %s\n", f ? "loaded" : "rejected");
    if (f) gr_face_destroy(f);
    return 0;
}
