#!/usr/bin/env python3
# F20 font: a version-3 Silf (16-bit class offsets) whose class map declares 0x7FFE linear classes.  The offset table alone is
# 4 + 2*(0x7FFE+1) = 0x10002 bytes, which does not fit the 16-bit `cls_off` of Silf::readClassOffsets<uint16>: it wraps to 2.
import sys, os, struct
sys.path.insert(0, os.path.dirname(os.path.abspath(__file__)))
import grfont
from grfont import *
N = int(os.environ.get('F20_NCLASS', '0x7FFE'), 0)
def classes(linear, lookup):
    first = (4 + 2 * (N + 1)) & 0xFFFF            # what a 16-bit offset field can say about the start of the class data
    offs = [(first + 2 * i) & 0xFFFF for i in range(N + 1)]
    blob = struct.pack('>HH', N, N) + struct.pack('>%dH' % (N + 1), *offs)
    if N < 0x7FFE:
        blob += struct.pack('>%dH' % N, *([1] * N))   # control: the class data is really there
    return blob
grfont._build_classes = classes
adv = [500, 600, 300, 450]
A = 1
p1 = Pass([Rule(0, [{A}], [NEXT, RET_ZERO])])
build_font(sys.argv[1], adv, {ord('a'): A}, [p1], [], [], spass=0, ppass=1)
