// C19 protocol: cut with gr_slot_linebreak_before at one interior slot, justify each line with its own ends, check both chains
#include <graphite2/Segment.h>
#include <graphite2/Font.h>
#include <cstdio>
#include <cstring>
#include <vector>
#include <unistd.h>
typedef std::vector<const gr_slot*> V;
static int checkline(const V&line,const char*ctx){
  // line[0] must have prev==NULL, chain by next visits exactly line in order, last has next NULL
  int bad=0; const gr_slot*s=line[0];
  if(gr_slot_prev_in_segment(s)!=NULL) {printf("  %s: head has a prev\n",ctx);bad++;}
  for(size_t i=0;i<line.size();i++){ if(s!=line[i]){printf("  %s: slot %zu of the line is not the one recorded (chain reordered/lost)\n",ctx,i);return bad+1;}
     const gr_slot*n=gr_slot_next_in_segment(s); if(i+1<line.size()){ if(!n){printf("  %s: chain ends after %zu of %zu slots\n",ctx,i+1,line.size());return bad+1;} if(gr_slot_prev_in_segment(n)!=s){printf("  %s: prev of slot %zu is not slot %zu\n",ctx,i+1,i);bad++;} } else if(n){printf("  %s: tail has a next\n",ctx);bad++;} s=n;}
  return bad;}
int main(int argc,char**argv){
  gr_face*f=gr_make_file_face(argv[1],gr_face_default); if(!f){puts("noface");return 2;}
  gr_font*font=gr_make_font(20,f); int fails=0,calls=0;
  const char*texts[]={"hello world this is text","ab cd ef","a b","abc","a\xcc\x81""b c\xcc\x81\xcc\x82 d"};
  for(auto t:texts) for(int dir=0;dir<8;dir++) for(int withfont=0;withfont<2;withfont++){
    gr_segment*s0=gr_make_seg(withfont?font:0,f,0,0,gr_utf8,t,strlen(t),dir); if(!s0)continue;
    unsigned n=gr_seg_n_slots(s0); gr_seg_destroy(s0);
    for(unsigned k=1;k<n;k++){
      gr_segment*s=gr_make_seg(withfont?font:0,f,0,0,gr_utf8,t,strlen(t),dir);
      V v; for(const gr_slot*sl=gr_seg_first_slot(s);sl;sl=gr_slot_next_in_segment(sl)) v.push_back(sl);
      if(v.size()!=n||!gr_slot_can_insert_before(v[k])){gr_seg_destroy(s);continue;}
      gr_slot_linebreak_before((gr_slot*)v[k]);
      V l1(v.begin(),v.begin()+k), l2(v.begin()+k,v.end());
      char ctx[160];
      alarm(20);
      gr_seg_justify(s,l1.front(),withfont?font:0,300.0f,gr_justCompleteLine,l1.front(),l1.back()); calls++;
      snprintf(ctx,160,"'%s' dir=%d font=%d cut@%u line1 after justify(line1)",t,dir,withfont,k); fails+=checkline(l1,ctx);
      snprintf(ctx,160,"'%s' dir=%d font=%d cut@%u line2 after justify(line1)",t,dir,withfont,k); fails+=checkline(l2,ctx);
      gr_seg_justify(s,l2.front(),withfont?font:0,300.0f,gr_justCompleteLine,l2.front(),l2.back()); calls++;
      snprintf(ctx,160,"'%s' dir=%d font=%d cut@%u line1 after justify(line2)",t,dir,withfont,k); fails+=checkline(l1,ctx);
      snprintf(ctx,160,"'%s' dir=%d font=%d cut@%u line2 after justify(line2)",t,dir,withfont,k); fails+=checkline(l2,ctx);
      alarm(0);
      gr_seg_destroy(s);}
    }
  printf("justify calls=%d fails=%d\n",calls,fails); return fails?1:0;}
