#include <graphite2/Segment.h>
#include <graphite2/Font.h>
#include <cstdio>
#include <cstring>
#include <cstdlib>
#include <vector>
#include <map>
std::map<const gr_slot*,int> id;
static void dump(const char*what,gr_segment*s,std::vector<const gr_slot*>&v){
  printf("%s: first=%d last=%d |",what,id.count(gr_seg_first_slot(s))?id[gr_seg_first_slot(s)]:-9,id.count(gr_seg_last_slot(s))?id[gr_seg_last_slot(s)]:-9);
  for(auto sl:v){const gr_slot*n=gr_slot_next_in_segment(sl),*p=gr_slot_prev_in_segment(sl); printf(" [%d: prev %d next %d]",id[sl],p?(id.count(p)?id[p]:-9):-1,n?(id.count(n)?id[n]:-9):-1);} printf("\n");}
int main(int argc,char**argv){
  gr_face*f=gr_make_file_face(argv[1],gr_face_default); int dir=atoi(argv[3]); unsigned k=atoi(argv[4]); const char*t=argv[2];
  gr_segment*s=gr_make_seg(0,f,0,0,gr_utf8,t,strlen(t),dir);
  std::vector<const gr_slot*> v; for(const gr_slot*sl=gr_seg_first_slot(s);sl;sl=gr_slot_next_in_segment(sl)){id[sl]=v.size();v.push_back(sl);}
  dump("made",s,v);
  gr_slot_linebreak_before((gr_slot*)v[k]); dump("cut",s,v);
  gr_seg_justify(s,v[0],0,300.0f,gr_justCompleteLine,v[0],v[k-1]); dump("just line1",s,v);
  gr_seg_justify(s,v[k],0,300.0f,gr_justCompleteLine,v[k],v.back()); dump("just line2",s,v);
  return 0;}
