#!/usr/bin/env python3
"""set bit 0 (line-end contextuals) of the flags byte of the first Silf sub-table: usage mk_lineend_font.py in.ttf out.ttf"""
import struct, sys
d = bytearray(open(sys.argv[1], 'rb').read())
n = struct.unpack('>H', d[4:6])[0]
for i in range(n):
    tag, cs, off, ln = struct.unpack('>4sLLL', d[12 + 16 * i:28 + 16 * i])
    if tag == b'Silf':
        ver = struct.unpack('>L', d[off:off + 4])[0]
        p = 4 + (4 if ver >= 0x30000 else 0)
        so = struct.unpack('>L', d[off + p + 4:off + p + 8])[0]
        q = so + (8 if ver >= 0x30000 else 0)
        d[off + q + 11] |= 1
open(sys.argv[2], 'wb').write(d)
