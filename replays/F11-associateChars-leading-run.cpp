#include <graphite2/Segment.h>
#include <graphite2/Font.h>
#include <cstdio>
#include <cstring>
int main(int argc,char**argv){
  gr_face*f=gr_make_file_face(argv[1],gr_face_default); if(!f){puts("noface");return 2;}
  int bad=0;
  for(int a=2;a<argc;a++){
    const char*t=argv[a]; size_t n=strlen(t);
    gr_segment*s=gr_make_seg(0,f,0,0,gr_utf8,t,n,0);
    unsigned nc=gr_seg_n_cinfo(s), ns=gr_seg_n_slots(s);
    printf("text '%s': %u chars %u slots\n",t,nc,ns);
    for(const gr_slot*sl=gr_seg_first_slot(s);sl;sl=gr_slot_next_in_segment(sl))
      printf("  slot %u gid %u before %d after %d orig %u\n",gr_slot_index(sl),gr_slot_gid(sl),gr_slot_before(sl),gr_slot_after(sl),gr_slot_original(sl));
    for(unsigned i=0;i<nc;i++){const gr_char_info*c=gr_seg_cinfo(s,i);
      int b=gr_cinfo_before(c),af=gr_cinfo_after(c);
      printf("  char %u U+%04X before %d after %d\n",i,gr_cinfo_unicode_char(c),b,af);
      if(ns&&(b<0||af<0||(unsigned)b>=ns||(unsigned)af>=ns)) bad++;
      // covered by some slot?
      bool cov=false; for(const gr_slot*sl=gr_seg_first_slot(s);sl;sl=gr_slot_next_in_segment(sl)) if(gr_slot_before(sl)<=(int)i&&(int)i<=gr_slot_after(sl)) cov=true;
      if(ns&&!cov){printf("   -> char %u in no slot range\n",i);bad++;}
    }
    gr_seg_destroy(s);
  }
  gr_face_destroy(f); printf("bad=%d\n",bad); return bad?1:0;}
