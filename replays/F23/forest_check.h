// Checks the attachment-forest property of a returned segment through the
// public API only.  Returns the number of violations found (0 = property holds).
#pragma once
#include <graphite2/Segment.h>
#include <cstdio>
#include <map>
#include <set>
#include <vector>

static int forest_check(gr_segment *seg, bool verbose = true)
{
    int bad = 0;
    std::vector<const gr_slot *> slots;
    std::map<const gr_slot *, int> idx;
    size_t guard = 0;
    for (const gr_slot *s = gr_seg_first_slot(seg); s; s = gr_slot_next_in_segment(s))
    {
        if (idx.count(s) || ++guard > 100000) { printf("VIOLATION: slot list is cyclic\n"); return 1; }
        idx[s] = int(slots.size());
        slots.push_back(s);
    }
    const size_t n = slots.size();
    if (verbose)
    {
        for (size_t i = 0; i < n; ++i)
        {
            const gr_slot *s = slots[i];
            const gr_slot *p = gr_slot_attached_to(s), *c = gr_slot_first_attachment(s), *sb = gr_slot_next_sibling_attachment(s);
            printf("  slot %zu gid %u parent %d child %d sibling %d\n", i, gr_slot_gid(s),
                   p ? (idx.count(p) ? idx[p] : -2) : -1,
                   c ? (idx.count(c) ? idx[c] : -2) : -1,
                   sb ? (idx.count(sb) ? idx[sb] : -2) : -1);
        }
    }
    // 1. parent chains end at a base, stay inside the segment
    for (size_t i = 0; i < n; ++i)
    {
        const gr_slot *p = slots[i];
        size_t steps = 0;
        while ((p = gr_slot_attached_to(p)))
        {
            if (!idx.count(p)) { printf("VIOLATION: slot %zu: parent chain leaves the segment\n", i); ++bad; break; }
            if (++steps > n) { printf("VIOLATION: slot %zu: parent chain does not end (cycle)\n", i); ++bad; break; }
        }
    }
    // 2. child chains
    for (size_t i = 0; i < n; ++i)
    {
        const gr_slot *par = slots[i];
        std::set<const gr_slot *> seen;
        size_t steps = 0;
        for (const gr_slot *c = gr_slot_first_attachment(par); c; c = gr_slot_next_sibling_attachment(c))
        {
            if (!idx.count(c)) { printf("VIOLATION: child chain of slot %zu leaves the segment\n", i); ++bad; break; }
            if (seen.count(c) || ++steps > n) { printf("VIOLATION: child chain of slot %zu is cyclic / repeats a member\n", i); ++bad; break; }
            seen.insert(c);
            if (gr_slot_attached_to(c) != par)
            {
                printf("VIOLATION: slot %d is in the child chain of slot %zu but does not name it as parent\n", idx[c], i);
                ++bad;
            }
        }
        // every slot naming par as parent is in the chain
        for (size_t j = 0; j < n; ++j)
            if (gr_slot_attached_to(slots[j]) == par && !seen.count(slots[j]))
            {
                printf("VIOLATION: slot %zu names slot %zu as parent but is not in its child chain\n", j, i);
                ++bad;
            }
    }
    // 3. base chain
    std::set<const gr_slot *> bases, pointed;
    for (size_t i = 0; i < n; ++i)
        if (!gr_slot_attached_to(slots[i])) bases.insert(slots[i]);
    for (std::set<const gr_slot *>::iterator b = bases.begin(); b != bases.end(); ++b)
    {
        const gr_slot *nx = gr_slot_next_sibling_attachment(*b);
        if (!nx) continue;
        if (!idx.count(nx)) { printf("VIOLATION: base chain leaves the segment at slot %d\n", idx[*b]); ++bad; continue; }
        if (gr_slot_attached_to(nx)) { printf("VIOLATION: base chain of slot %d continues with the non-base slot %d\n", idx[*b], idx[nx]); ++bad; }
        if (pointed.count(nx)) { printf("VIOLATION: slot %d has two predecessors in the base chain\n", idx[nx]); ++bad; }
        pointed.insert(nx);
    }
    if (!bases.empty())
    {
        std::vector<const gr_slot *> heads;
        for (std::set<const gr_slot *>::iterator b = bases.begin(); b != bases.end(); ++b)
            if (!pointed.count(*b)) heads.push_back(*b);
        if (heads.size() != 1)
        {
            printf("VIOLATION: the bases form %zu chains instead of one\n", heads.size());
            ++bad;
        }
        else
        {
            std::set<const gr_slot *> seen;
            for (const gr_slot *b = heads[0]; b && idx.count(b); b = gr_slot_next_sibling_attachment(b))
            {
                if (seen.count(b)) { printf("VIOLATION: base chain is cyclic\n"); ++bad; break; }
                seen.insert(b);
            }
            if (seen.size() != bases.size())
            {
                printf("VIOLATION: base chain visits %zu slots, there are %zu bases\n", seen.size(), bases.size());
                ++bad;
            }
        }
    }
    return bad;
}
