import sys, os
sys.path.insert(0, os.path.dirname(os.path.abspath(__file__)))
from mkfont import *
# "ab": step over a; insert a slot in front of b, attach it to a, delete it again
p1 = dict(kind='sub', rules=[dict(match='ab', action=bytes([NEXT, INSERT]) + attach(0) + bytes([DELETE, NEXT, NEXT, RET_ZERO]))])
p3 = dict(kind='pos', rules=[dict(match='z', action=bytes([NEXT, RET_ZERO]))])
build([p1, p3], sys.argv[1])
