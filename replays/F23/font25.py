import sys, os
sys.path.insert(0, os.path.dirname(os.path.abspath(__file__)))
from mkfont import *
# pass 1 "ab": b attaches to a.  pass 2 "a": step past a, delete the slot behind the match, insert a slot, end.
p1 = dict(kind='sub', rules=[dict(match='ab', action=bytes([NEXT]) + attach(-1) + bytes([NEXT, RET_ZERO]))])
p2 = dict(kind='sub', rules=[dict(match='a', action=bytes([NEXT, DELETE, INSERT, PUSH_BYTE, 2, POP_RET]))])
p3 = dict(kind='pos', rules=[dict(match='z', action=bytes([NEXT, RET_ZERO]))])
build([p1, p2, p3], sys.argv[1])
