#!/usr/bin/env python3
# pass 1: "ab": b attaches to a.  pass 2: "b": DELETE, then the action ends (no NEXT).
import sys, os
sys.path.insert(0, os.path.dirname(os.path.abspath(__file__)))
from mkfont import *
p1 = dict(kind='sub', rules=[dict(match='ab', action=bytes([NEXT]) + attach(-1) + bytes([NEXT, RET_ZERO]))])
p2 = dict(kind='sub', rules=[dict(match='b', action=bytes([DELETE, RET_ZERO]))])
p3 = dict(kind='pos', rules=[dict(match='z', action=bytes([NEXT, RET_ZERO]))])
build([p1, p2, p3], sys.argv[1])
