#!/bin/sh
# usage: run.sh [<graphite source tree>] [23|24|25]
#   exit 0 = every returned segment is a forest in C04's sense (forest_check.h) for the fonts of the chosen facets
#   23: pass 2 rule "b": DELETE RET_ZERO (the action ends on the slot it deleted)          -- repaired by 93f0ef73
#   25: pass 2 rule "a": NEXT DELETE INSERT PUSH 2 POP_RET (deletes the slot behind the match, then moves off its cell) -- repaired by 8095bccf
#   26: pass 1 "ca": a attaches to c; pass 2 rule "b": DELETE INSERT NEXT DELETE PUSH 2 POP_RET (deletes the slot IN FRONT of the match) -- repaired by 91... (see known_findings.json)
#   24: rule "ab": NEXT INSERT attach.to=a DELETE NEXT NEXT RET_ZERO (a slot inserted, attached and deleted by one action) -- known finding F24
set -e
SRC=${1:-/repo}
WHICH=${2:-"23 25 26"}
H=$(cd "$(dirname "$0")" && pwd)
B=$(mktemp -d /tmp/f23-XXXXXX)
cmake -G Ninja -S "$SRC" -B "$B/build" -DCMAKE_BUILD_TYPE=RelWithDebInfo >/dev/null
cmake --build "$B/build" -j8 --target graphite2 >/dev/null
g++ -O1 -g -I"$SRC/include" "$H/shape.cpp" -o "$B/shape" -L"$B/build/src" -lgraphite2 -Wl,-rpath,"$B/build/src"
rc=0
for n in $WHICH; do
  GR_REPO="$SRC" python3 "$H/font$n.py" "$B/f$n.ttf"
  for t in ab xabx abab cab xcabx; do
    "$B/shape" "$B/f$n.ttf" "$t" || rc=1
  done
done
rm -rf "$B"
exit $rc
