#!/usr/bin/env python3
"""Tiny Graphite font builder used by the demos.

Takes tests/fonts/grtest1gr.ttf, throws its Silf table away and writes a new
one (version 2.0) whose passes/rules are described in python.  Everything else
(cmap, glyf, Glat, Gloc, Feat, Sill ...) is kept as it is.

A rule is  dict(match="abc", pre=0, action=bytes, constraint=bytes)
  match : the characters (ASCII) the rule's slots have to be, including
          `pre` slots of pre-context at the front.
A pass is  dict(kind="sub"|"pos", rules=[...], maxloop=N)
"""
import struct, sys, os
BASE = os.path.join(os.environ.get('GR_REPO', '/repo'), 'tests', 'fonts', 'grtest1gr.ttf')

# ---- opcodes ---------------------------------------------------------------
(NOP, PUSH_BYTE, PUSH_BYTEU, PUSH_SHORT, PUSH_SHORTU, PUSH_LONG, ADD, SUB, MUL,
 DIV, MIN_, MAX_, NEG, TRUNC8, TRUNC16, COND, AND, OR, NOT, EQUAL, NOT_EQ, LESS,
 GTR, LESS_EQ, GTR_EQ, NEXT, NEXT_N, COPY_NEXT, PUT_GLYPH_8BIT_OBS,
 PUT_SUBS_8BIT_OBS, PUT_COPY, INSERT, DELETE, ASSOC, CNTXT_ITEM, ATTR_SET,
 ATTR_ADD, ATTR_SUB, ATTR_SET_SLOT, IATTR_SET_SLOT, PUSH_SLOT_ATTR,
 PUSH_GLYPH_ATTR_OBS, PUSH_GLYPH_METRIC, PUSH_FEAT, PUSH_ATT_TO_GATTR_OBS,
 PUSH_ATT_TO_GLYPH_METRIC, PUSH_ISLOT_ATTR, PUSH_IGLYPH_ATTR, POP_RET, RET_ZERO,
 RET_TRUE, IATTR_SET, IATTR_ADD, IATTR_SUB, PUSH_PROC_STATE, PUSH_VERSION,
 PUT_SUBS, PUT_SUBS2, PUT_SUBS3, PUT_GLYPH, PUSH_GLYPH_ATTR,
 PUSH_ATT_TO_GLYPH_ATTR, BITOR, BITAND, BITNOT, BITSET, SET_FEAT) = range(67)

SLAT_ADVX, SLAT_ADVY, SLAT_ATTTO, SLAT_ATTX, SLAT_ATTY = 0, 1, 2, 3, 4
SLAT_INSERT = 17
SLAT_POSX = 18
SLAT_SHIFTX = 20


def b(x):
    return x & 0xFF


def attach(rel):
    """current slot: attach.to = slot at relative position rel"""
    return bytes([PUSH_BYTE, b(rel), ATTR_SET_SLOT, SLAT_ATTTO])


# ---- sfnt helpers ----------------------------------------------------------
def read_tables(data):
    n = struct.unpack('>H', data[4:6])[0]
    tabs = {}
    for i in range(n):
        tag, cs, off, ln = struct.unpack('>4sIII', data[12 + 16 * i:28 + 16 * i])
        tabs[tag] = data[off:off + ln]
    return data[:4], tabs


def checksum(d):
    d = d + b'\0' * (-len(d) % 4)
    return sum(struct.unpack('>%dI' % (len(d) // 4), d)) & 0xFFFFFFFF


def write_font(sfver, tabs):
    tags = sorted(tabs)
    n = len(tags)
    es = 0
    while (2 << es) <= n:
        es += 1
    sr = (1 << es) * 16
    hdr = sfver + struct.pack('>HHHH', n, sr, es, n * 16 - sr)
    off = 12 + 16 * n
    recs = b''
    body = b''
    for t in tags:
        d = tabs[t]
        recs += struct.pack('>4sIII', t, checksum(d), off, len(d))
        pad = d + b'\0' * (-len(d) % 4)
        body += pad
        off += len(pad)
    return hdr + recs + body


def cmap_lookup(cmap):
    """returns dict codepoint->gid for the (3,1) format 4 subtable"""
    nt = struct.unpack('>H', cmap[2:4])[0]
    for i in range(nt):
        pid, eid, so = struct.unpack('>HHI', cmap[4 + 8 * i:12 + 8 * i])
        if (pid, eid) == (3, 1):
            break
    c = cmap[so:]
    sc = struct.unpack('>H', c[6:8])[0] // 2
    ends = struct.unpack('>%dH' % sc, c[14:14 + 2 * sc])
    starts = struct.unpack('>%dH' % sc, c[16 + 2 * sc:16 + 4 * sc])
    deltas = struct.unpack('>%dh' % sc, c[16 + 4 * sc:16 + 6 * sc])
    robase = 16 + 6 * sc
    ros = struct.unpack('>%dH' % sc, c[robase:robase + 2 * sc])
    res = {}
    for i in range(sc):
        for ch in range(starts[i], min(ends[i], 0xFFFE) + 1):
            if ros[i] == 0:
                g = (ch + deltas[i]) & 0xFFFF
            else:
                p = robase + 2 * i + ros[i] + 2 * (ch - starts[i])
                g = struct.unpack('>H', c[p:p + 2])[0]
                if g:
                    g = (g + deltas[i]) & 0xFFFF
            res[ch] = g
    return res


# ---- Silf ------------------------------------------------------------------
def build_pass(p, gidof, subtable_off):
    """returns the bytes of one pass; subtable_off = offset of this pass from
    the start of the Silf subtable (the code offsets are relative to that)"""
    rules = p['rules']
    nrules = len(rules)
    seqs = [[gidof[ord(ch)] for ch in r['match']] for r in rules]
    glyphs = sorted(set(g for s in seqs for g in s))
    col = {g: i for i, g in enumerate(glyphs)}
    ncols = len(glyphs)
    maxpre = max(r.get('pre', 0) for r in rules)
    minpre = min(r.get('pre', 0) for r in rules)
    # the FSM is entered `pre` slots before the rule's own first slot.  Keep it
    # simple: every rule of a pass has to have the same pre-context length.
    assert maxpre == minpre, "all rules of a pass need the same pre-context"

    # trie
    trans = [dict()]          # state -> {col: state}
    succ = [[]]               # state -> [rule numbers]
    for rn, s in enumerate(seqs):
        st = 0
        for g in s:
            c = col[g]
            if c not in trans[st]:
                trans.append(dict())
                succ.append([])
                trans[st][c] = len(trans) - 1
            st = trans[st][c]
        succ[st].append(rn)
    n = len(trans)
    # order: pure transitional (state 0 first), transitional+success, pure success
    def klass(i):
        t = bool(trans[i]) or i == 0
        s = bool(succ[i])
        return 0 if (t and not s) else (1 if (t and s) else 2)
    order = sorted(range(n), key=lambda i: (klass(i), i))
    assert order[0] == 0
    newid = {old: new for new, old in enumerate(order)}
    ntrans = sum(1 for i in range(n) if klass(i) < 2)
    nsucc = sum(1 for i in range(n) if klass(i) > 0)
    rows = []
    for old in order[:ntrans]:
        rows.append([newid[trans[old].get(c, 0)] if c in trans[old] else 0 for c in range(ncols)])
    rulemap = []
    orulemap = []
    for old in order[n - nsucc:]:
        orulemap.append(len(rulemap))
        rulemap += succ[old]
    orulemap.append(len(rulemap))

    # ranges
    ranges = [(g, g, col[g]) for g in glyphs]

    cons = b''
    ocons = []
    acts = b''
    oacts = []
    for r in rules:
        c = r.get('constraint', b'')
        if c:
            if not cons:
                cons = b'\0'        # offset 0 means "no constraint"
            ocons.append(len(cons))
            cons += c
        else:
            ocons.append(0)
        oacts.append(len(acts))
        acts += r['action']
    ocons.append(len(cons))
    oacts.append(len(acts))
    # offsets of constraint-less rules: the loader walks backwards and uses
    # the next rule's start as the end, so give them that value explicitly
    pcons = p.get('constraint', b'')

    body = b''
    for f, l, c in ranges:
        body += struct.pack('>HHH', f, l, c)
    body += struct.pack('>%dH' % len(orulemap), *orulemap)
    body += struct.pack('>%dH' % len(rulemap), *rulemap)
    body += struct.pack('>BB', minpre, maxpre)
    body += struct.pack('>%dh' % (maxpre - minpre + 1), *([0] * (maxpre - minpre + 1)))
    body += struct.pack('>%dH' % nrules, *[len(r['match']) for r in rules])
    body += bytes([r.get('pre', 0) for r in rules])
    body += struct.pack('>BH', 0, len(pcons))
    body += struct.pack('>%dH' % (nrules + 1), *ocons)
    body += struct.pack('>%dH' % (nrules + 1), *oacts)
    for row in rows:
        body += struct.pack('>%dH' % ncols, *row)
    body += b'\0'
    pc_off = subtable_off + 40 + len(body)
    rc_off = pc_off + len(pcons)
    a_off = rc_off + len(cons)
    hdr = struct.pack('>BBBBHHIIIIHHHHHHHH',
                      p.get('flags', 0), p.get('maxloop', 5), max(len(s) for s in seqs), 0,
                      nrules, 0, pc_off, rc_off, a_off, 0,
                      n, ntrans, nsucc, ncols, len(ranges), 0, 0, 0)
    assert len(hdr) == 40
    return hdr + body + pcons + cons + acts + b'\0\0\0\0'


def build_silf(passes, gidof, maxglyph, lbgid, num_user=2, out_class=None, rtl=False, flags=0):
    nsub = sum(1 for p in passes if p['kind'] == 'sub')
    npass = len(passes)
    assert all(p['kind'] == 'sub' for p in passes[:nsub])
    ipos = nsub
    head = struct.pack('>HHH', maxglyph, 0, 0)
    head += bytes([npass, 0, ipos, npass, 0xFF, flags, 0, 0,
                   0, 1, 2, 3, 0, 0])          # aPseudo aBreak aBidi aMirror aPassBits numJust
    head += struct.pack('>HBBBB', 0, num_user, 0, 2 if rtl else 1, 0)
    head += b'\0\0\0'          # reserved
    head += b'\0'              # numCritFeatures
    head += b'\0'              # reserved
    head += b'\0'              # numScriptTag
    head += struct.pack('>H', lbgid)
    opasses_pos = len(head)
    head += b'\0' * (4 * (npass + 1))
    head += struct.pack('>HHHH', 0, 0, 0, 0)   # no pseudo glyphs
    # class map: linear classes only
    classes = out_class or [[gidof[ord('x')]]]
    ncls = len(classes)
    o = 4 + 2 * (ncls + 1)
    offs = []
    data = b''
    for c in classes:
        offs.append(o + len(data))
        data += struct.pack('>%dH' % len(c), *c)
    offs.append(o + len(data))
    cm = struct.pack('>HH', ncls, ncls) + struct.pack('>%dH' % (ncls + 1), *offs) + data
    head += cm
    sub = head
    offsets = []
    for p in passes:
        offsets.append(len(sub))
        sub += build_pass(p, gidof, len(sub))
    offsets.append(len(sub))
    sub = sub[:opasses_pos] + struct.pack('>%dI' % (npass + 1), *offsets) + sub[opasses_pos + 4 * (npass + 1):]
    return struct.pack('>IHHI', 0x00020000, 1, 0, 12) + sub


def build(passes, out, base=BASE, **kw):
    data = open(base, 'rb').read()
    sfver, tabs = read_tables(data)
    gidof = cmap_lookup(tabs[b'cmap'])
    old = tabs[b'Silf']
    maxglyph, = struct.unpack('>H', old[12:14])
    tabs[b'Silf'] = build_silf(passes, gidof, maxglyph, 0, **kw)
    open(out, 'wb').write(write_font(sfver, tabs))
    return gidof


if __name__ == '__main__':
    # self test: "ab" -> b attaches to a
    passes = [dict(kind='pos', rules=[dict(match='ab', action=bytes([NEXT]) + attach(-1) + bytes([NEXT, RET_ZERO]))])]
    build(passes, sys.argv[1])
