import sys, os
sys.path.insert(0, os.path.dirname(os.path.abspath(__file__)))
from mkfont import *
# pass 1 "ca": a attaches to c.  pass 2 "b": delete b, insert a slot in front of the slot BEFORE the match (a), step onto a, delete it.
p1 = dict(kind='sub', rules=[dict(match='ca', action=bytes([NEXT]) + attach(-1) + bytes([NEXT, RET_ZERO]))])
p2 = dict(kind='sub', rules=[dict(match='b', action=bytes([DELETE, INSERT, NEXT, DELETE, PUSH_BYTE, 2, POP_RET]))])
p3 = dict(kind='pos', rules=[dict(match='z', action=bytes([NEXT, RET_ZERO]))])
build([p1, p2, p3], sys.argv[1])
