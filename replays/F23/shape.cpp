// usage: shape <font> <text> [rtl]
// Shapes text with the font (public API only) and checks the forest property.
#include <graphite2/Font.h>
#include <graphite2/Segment.h>
#include <cstdio>
#include <cstring>
#include "forest_check.h"

int main(int argc, char **argv)
{
    if (argc < 3) return 2;
    gr_face *face = gr_make_file_face(argv[1], gr_face_default);
    if (!face) { printf("cannot load %s\n", argv[1]); return 3; }
    const int rtl = argc > 3 && !strcmp(argv[3], "rtl");
    gr_segment *seg = gr_make_seg(0, face, 0, 0, gr_utf8, argv[2], strlen(argv[2]), rtl);
    if (!seg) { printf("no segment for '%s'\n", argv[2]); return 4; }
    printf("text '%s' %s: %u slots\n", argv[2], rtl ? "rtl" : "ltr", gr_seg_n_slots(seg));
    const int bad = forest_check(seg);
    gr_seg_destroy(seg);
    gr_face_destroy(face);
    printf(bad ? "FAIL: %d violation(s)\n" : "OK\n", bad);
    return bad ? 1 : 0;
}
