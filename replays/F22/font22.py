#!/usr/bin/env python3
# F22 font: no bidi pass, NO mirroring attribute (attrMirroring = 0), glyph attribute 0 is an ordinary attribute that happens to hold
# 300 for glyph A (the pseudo-glyph attribute is attribute 3, left at 0 everywhere).  Four glyphs.
import sys, os
sys.path.insert(0, os.path.dirname(os.path.abspath(__file__)))
os.environ.setdefault('GR_APSEUDO', '3')
from grfont import *
adv = [500, 600, 300, 450]
A, B, C = 1, 2, 3
p1 = Pass([Rule(0, [{B}], [NEXT, RET_ZERO])])
build_font(sys.argv[1], adv, {ord('a'): A, ord('b'): B, ord('c'): C}, [p1], [], [], glyph_attrs={A: {0: 300}}, spass=0, ppass=1)
