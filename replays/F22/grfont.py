#!/usr/bin/env python3
"""Minimal Graphite font builder used by the demo programs.

Builds a TrueType container (no glyf/loca - graphite2 does not need them) with
head/hhea/maxp/hmtx/cmap + Silf(v3)/Glat(v1)/Gloc(v1) tables from a small rule
description.  Only what the demos need is supported:

  * any number of passes, each a list of rules
  * a rule = (pre-context length, [glyph set per rule item], constraint bytes, action bytes)
  * linear (output) classes and lookup (input) classes
  * glyph attributes, user attributes, writing direction

The FSM is produced by a straightforward subset construction over the rules
(padded with "any" items up to the pass's maximum pre-context), exactly as the
Silf pass table format documents it.
"""
import struct

# ---- VM opcodes -----------------------------------------------------------
NOP, PUSH_BYTE, PUSH_BYTEU, PUSH_SHORT, PUSH_SHORTU, PUSH_LONG = range(6)
ADD, SUB, MUL, DIV, MIN, MAX, NEG, TRUNC8, TRUNC16, COND = range(6, 16)
AND, OR, NOT, EQUAL, NOT_EQ, LESS, GTR, LESS_EQ, GTR_EQ = range(16, 25)
NEXT, NEXT_N, COPY_NEXT, PUT_GLYPH_8BIT_OBS, PUT_SUBS_8BIT_OBS, PUT_COPY = range(25, 31)
INSERT, DELETE, ASSOC, CNTXT_ITEM = range(31, 35)
ATTR_SET, ATTR_ADD, ATTR_SUB, ATTR_SET_SLOT, IATTR_SET_SLOT = range(35, 40)
PUSH_SLOT_ATTR, PUSH_GLYPH_ATTR_OBS, PUSH_GLYPH_METRIC, PUSH_FEAT = range(40, 44)
PUSH_ATT_TO_GATTR_OBS, PUSH_ATT_TO_GLYPH_METRIC, PUSH_ISLOT_ATTR, PUSH_IGLYPH_ATTR = range(44, 48)
POP_RET, RET_ZERO, RET_TRUE, IATTR_SET, IATTR_ADD, IATTR_SUB = range(48, 54)
PUSH_PROC_STATE, PUSH_VERSION, PUT_SUBS, PUT_SUBS2, PUT_SUBS3, PUT_GLYPH = range(54, 60)
PUSH_GLYPH_ATTR, PUSH_ATT_TO_GLYPH_ATTR = 60, 61

# ---- slot attribute codes -------------------------------------------------
SLAT_ADVX, SLAT_ADVY, SLAT_ATTTO, SLAT_ATTX, SLAT_ATTY = 0, 1, 2, 3, 4
SLAT_ATTWITHX, SLAT_ATTWITHY = 8, 9
SLAT_SHIFTX, SLAT_SHIFTY = 20, 21
SLAT_USER = 55


def s8(v):
    return v & 0xFF


def be16(v):
    return [(v >> 8) & 0xFF, v & 0xFF]


class Rule:
    def __init__(self, pre, items, action, constraint=b''):
        self.pre = pre                      # number of pre-context items
        self.items = [frozenset(i) for i in items]   # glyph set per item (incl. pre-context)
        self.action = bytes(action)
        self.constraint = bytes(constraint)


class Pass:
    def __init__(self, rules, maxloop=5):
        self.rules = rules
        self.maxloop = maxloop


def _build_fsm(rules, nglyphs):
    maxpre = max(r.pre for r in rules)
    minpre = min(r.pre for r in rules)
    ANY = None
    padded = [[ANY] * (maxpre - r.pre) + list(r.items) for r in rules]
    # columns: glyphs with the same membership signature share a column
    sets = []
    for r in rules:
        for s in r.items:
            if s not in sets:
                sets.append(s)
    sig2col, cols = {}, []
    for g in range(nglyphs):
        sig = tuple(g in s for s in sets)
        if sig not in sig2col:
            sig2col[sig] = len(sig2col)
        cols.append(sig2col[sig])
    ncols = len(sig2col)
    colglyph = {}
    for g, c in enumerate(cols):
        colglyph.setdefault(c, g)

    def accepts(item, col):
        return item is ANY or colglyph[col] in item

    def start(k):
        return frozenset((ri, k) for ri, p in enumerate(padded) if len(p) - len(rules[ri].items) >= k)

    starts = [start(k) for k in range(maxpre - minpre + 1)]
    states, trans = [starts[0]], {}
    index = {starts[0]: 0}
    todo = [starts[0]]
    for st in starts[1:]:
        if st not in index:
            index[st] = len(states); states.append(st); todo.append(st)
    while todo:
        st = todo.pop()
        row = []
        for c in range(ncols):
            nxt = frozenset((ri, pos + 1) for ri, pos in st
                            if pos < len(padded[ri]) and accepts(padded[ri][pos], c))
            if nxt and nxt not in index:
                index[nxt] = len(states); states.append(nxt); todo.append(nxt)
            row.append(nxt if nxt else None)
        trans[st] = row

    def is_succ(st):
        return any(pos == len(padded[ri]) for ri, pos in st)

    def is_trans(st):
        return any(pos < len(padded[ri]) for ri, pos in st)

    grp = lambda st: 0 if not is_succ(st) else (1 if is_trans(st) else 2)
    order = [states[0]] + sorted(states[1:], key=lambda st: (grp(st), index[st]))
    assert grp(states[0]) == 0
    renum = {st: i for i, st in enumerate(order)}
    ntrans = sum(1 for st in order if grp(st) < 2)
    nsucc = sum(1 for st in order if grp(st) > 0)
    table = []
    for st in order[:ntrans]:
        table.append([renum[n] if n is not None else 0 for n in trans[st]])
    rulemap = []
    for st in order[len(order) - nsucc:]:
        rulemap.append(sorted(ri for ri, pos in st if pos == len(padded[ri])))
    return dict(maxpre=maxpre, minpre=minpre, cols=cols, ncols=ncols,
                nstates=len(order), ntrans=ntrans, nsucc=nsucc, table=table,
                rulemap=rulemap, starts=[renum[s] for s in starts])


def _sr(n, unit):
    es = 0
    while (1 << (es + 1)) <= n:
        es += 1
    return (1 << es) * unit, es, (n - (1 << es)) * unit


def _build_pass(p, nglyphs, base, flags=0):
    """base = offset of this pass from the start of the Silf sub-table"""
    rules = p.rules
    f = _build_fsm(rules, nglyphs)
    ranges = []
    g = 0
    while g < nglyphs:
        e = g
        while e + 1 < nglyphs and f['cols'][e + 1] == f['cols'][g]:
            e += 1
        ranges.append((g, e, f['cols'][g]))
        g = e + 1
    body = b''
    for a, b, c in ranges:
        body += struct.pack('>HHH', a, b, c)
    off = 0
    orm = []
    for lst in f['rulemap']:
        orm.append(off); off += len(lst)
    orm.append(off)
    body += struct.pack('>%dH' % len(orm), *orm)
    for lst in f['rulemap']:
        body += struct.pack('>%dH' % len(lst), *lst)
    body += struct.pack('>BB', f['minpre'], f['maxpre'])
    body += struct.pack('>%dH' % len(f['starts']), *f['starts'])
    body += struct.pack('>%dH' % len(rules), *[len(r.items) for r in rules])
    body += bytes(r.pre for r in rules)
    body += struct.pack('>BH', 0, 0)        # collision threshold, pass constraint length
    ccode = b''
    ocon = []
    if any(r.constraint for r in rules):
        ccode = b'\0'
    for r in rules:
        if r.constraint:
            ocon.append(len(ccode)); ccode += r.constraint
        else:
            ocon.append(0)
    ocon.append(len(ccode))
    acode = b''
    oact = []
    for r in rules:
        oact.append(len(acode)); acode += r.action
    oact.append(len(acode))
    body += struct.pack('>%dH' % len(ocon), *ocon)
    body += struct.pack('>%dH' % len(oact), *oact)
    for row in f['table']:
        body += struct.pack('>%dH' % len(row), *row)
    body += b'\0'
    pc = base + 40 + len(body)
    rc = pc
    ac = rc + len(ccode)
    nr = len(ranges)
    sr, es, rs = _sr(nr, 6)
    hdr = struct.pack('>BBBBHHLLLLHHHHHHHH', flags, p.maxloop, max(len(r.items) for r in rules), 0,
                      len(rules), 0, pc, rc, ac, 0,
                      f['nstates'], f['ntrans'], f['nsucc'], f['ncols'], nr, sr, es, rs)
    assert len(hdr) == 40
    return hdr + body + ccode + acode


def _build_classes(linear, lookup):
    n = len(linear) + len(lookup)
    first = 4 + 2 * (n + 1)
    data = b''
    offs = []
    for cls in linear:
        offs.append(first + len(data))
        data += struct.pack('>%dH' % len(cls), *cls)
    for cls in lookup:      # list of glyphs, index = position in list
        offs.append(first + len(data))
        pairs = sorted((g, i) for i, g in enumerate(cls))
        sr, es, rs = _sr(len(pairs), 1)
        data += struct.pack('>HHHH', len(pairs), sr, es, rs)
        for g, i in pairs:
            data += struct.pack('>HH', g, i)
    offs.append(first + len(data))
    return struct.pack('>HH', n, len(linear)) + struct.pack('>%dH' % len(offs), *offs) + data


def build_silf(nglyphs, passes, linear, lookup, num_user, rtl, spass, ppass, a_bidi=2):
    npass = len(passes)
    import os
    ijust = int(os.environ.get('GR_IJUST', npass))
    ibidi = int(os.environ.get('GR_IBIDI', 0xFF))
    sub = struct.pack('>LHH', 0x00030000, 0, 0)           # ruleVersion, passOffset, pseudosOffset
    sub += struct.pack('>HHH', nglyphs - 1, 0, 0)         # maxGlyphID, extra ascent/descent
    sub += struct.pack('>BBBBBB', npass, spass, ppass, ijust, ibidi, 0)   # numPasses,iSubst,iPos,iJust,iBidi,flags
    sub += struct.pack('>BB', 2, 5)                       # max pre/post context
    sub += struct.pack('>BBBBB', int(os.environ.get('GR_APSEUDO', 0)), 1, a_bidi, int(os.environ.get('GR_AMIRROR', 0)), 0)      # attrPseudo, attrBreakWeight, attrDirectionality, attrMirroring, attrSkipPasses
    sub += struct.pack('>B', 0)                           # numJLevels
    sub += struct.pack('>HBBBB', 0, num_user, 0, 2 if rtl else 1, 0)  # numLigComp,numUserDefn,maxCompPerLig,direction,attCollisions
    sub += b'\0\0\0'                                      # reserved
    sub += struct.pack('>B', 0)                           # numCritFeatures
    sub += b'\0'                                          # reserved
    sub += struct.pack('>B', 0)                           # numScriptTag
    sub += struct.pack('>H', 0)                           # lbGID
    opass_pos = len(sub)
    sub += b'\0' * (4 * (npass + 1))
    sub += struct.pack('>HHHH', 0, 0, 0, 0)               # numPseudo + search fields
    sub += _build_classes(linear, lookup)
    offs = []
    for p in passes:
        offs.append(len(sub))
        sub += _build_pass(p, nglyphs, len(sub))
    offs.append(len(sub))
    sub = sub[:opass_pos] + struct.pack('>%dL' % len(offs), *offs) + sub[opass_pos + 4 * len(offs):]
    hdr = struct.pack('>LLHHL', 0x00030000, 0x00050000, 1, 0, 16)
    return hdr + sub


def build_cmap(cmap):
    segs = []
    for u in sorted(cmap):
        g = cmap[u]
        if segs and segs[-1][1] + 1 == u and segs[-1][2] + (u - segs[-1][0]) == g:
            segs[-1][1] = u
        else:
            segs.append([u, u, g])
    segs.append([0xFFFF, 0xFFFF, 0])
    n = len(segs)
    sr, es, rs = _sr(n, 2)
    sub = struct.pack('>HHHH', n * 2, sr, es, rs)
    sub += b''.join(struct.pack('>H', s[1]) for s in segs) + b'\0\0'
    sub += b''.join(struct.pack('>H', s[0]) for s in segs)
    sub += b''.join(struct.pack('>H', (s[2] - s[0]) & 0xFFFF if s[0] != 0xFFFF else 1) for s in segs)
    sub += b''.join(struct.pack('>H', 0) for s in segs)
    sub = struct.pack('>HHH', 4, 6 + len(sub), 0) + sub
    return struct.pack('>HHHHL', 0, 1, 3, 1, 12) + sub


def build_font(path, advances, cmap, passes, linear=(), lookup=(), glyph_attrs=None,
               num_attrs=8, num_user=2, rtl=False, spass=0, ppass=None, upem=1000):
    """advances: list of advance widths, one per glyph (gid = index)."""
    n = len(advances)
    glyph_attrs = glyph_attrs or {}
    if ppass is None:
        ppass = len(passes)
    head = struct.pack('>LLLLHHQQhhhhHHhhh', 0x00010000, 0x00010000, 0, 0x5F0F3CF5, 0, upem,
                       0, 0, 0, 0, upem, upem, 0, 8, 2, 0, 0)
    hhea = struct.pack('>LhhhHhhhhhhhhhhhH', 0x00010000, 800, -200, 0, max(advances), 0, 0, 0, 1, 0, 0,
                       0, 0, 0, 0, 0, n)
    maxp = struct.pack('>LH', 0x00010000, n) + b'\0' * 26
    hmtx = b''.join(struct.pack('>Hh', a, 0) for a in advances)
    glat = struct.pack('>L', 0x00010000)
    locs = []
    for g in range(n):
        locs.append(len(glat))
        vals = [glyph_attrs.get(g, {}).get(a, 0) for a in range(num_attrs)]
        glat += struct.pack('>BB', 0, num_attrs) + struct.pack('>%dh' % num_attrs, *vals)
    locs.append(len(glat))
    gloc = struct.pack('>LHH', 0x00010000, 0, num_attrs) + struct.pack('>%dH' % len(locs), *locs)
    silf = build_silf(n, passes, list(linear), list(lookup), num_user, rtl, spass, ppass)
    tables = {b'head': head, b'hhea': hhea, b'maxp': maxp, b'hmtx': hmtx, b'cmap': build_cmap(cmap),
              b'Silf': silf, b'Glat': glat, b'Gloc': gloc}
    tags = sorted(tables)
    sr, es, rs = _sr(len(tags), 16)
    out = struct.pack('>LHHHH', 0x00010000, len(tags), sr, es, rs)
    off = 12 + 16 * len(tags)
    body = b''
    for t in tags:
        d = tables[t]
        out += struct.pack('>4sLLL', t, 0, off + len(body), len(d))
        body += d + b'\0' * (-len(d) % 4)
    with open(path, 'wb') as fh:
        fh.write(out + body)
