#!/bin/sh
# usage: run.sh [<graphite source tree>]   exit 0 = every slot glyph id is below the number of glyphs for every direction-flag value
set -e
SRC=${1:-/repo}
H=$(cd "$(dirname "$0")" && pwd)
B=$(mktemp -d /tmp/f22-XXXXXX)
cmake -G Ninja -S "$SRC" -B "$B/build" -DCMAKE_BUILD_TYPE=RelWithDebInfo >/dev/null
cmake --build "$B/build" -j8 --target graphite2 >/dev/null
gcc -O1 -g -I"$SRC/include" "$H/gids.c" -o "$B/gids" -L"$B/build/src" -lgraphite2 -Wl,-rpath,"$B/build/src"
python3 "$H/font22.py" "$B/f22.ttf"
rc=0
"$B/gids" "$B/f22.ttf" || rc=$?
rm -rf "$B"
exit $rc
