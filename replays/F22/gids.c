/* F22: every gr_slot_gid is below gr_face_n_glyphs for every direction-flag value (C03) */
#include <graphite2/Segment.h>
#include <stdio.h>
int main(int argc, char **argv)
{
    gr_face *f = gr_make_file_face(argv[1], 0);
    if (!f) { printf("cannot load font\n"); return 2; }
    unsigned n = gr_face_n_glyphs(f); int bad = 0;
    for (int dir = 0; dir < 8; ++dir) {
        gr_segment *s = gr_make_seg(0, f, 0, 0, gr_utf8, "abc", 3, dir);
        if (!s) { printf("dir %d: no segment\n", dir); continue; }
        printf("dir %d:", dir);
        for (const gr_slot *p = gr_seg_first_slot(s); p; p = gr_slot_next_in_segment(p)) {
            printf(" %u", gr_slot_gid(p));
            if (gr_slot_gid(p) >= n) ++bad;
        }
        printf("\n");
        gr_seg_destroy(s);
    }
    gr_face_destroy(f);
    printf(bad ? "GLYPH ID OUT OF RANGE (%u glyphs)\n" : "ok (%u glyphs)\n", n);
    return bad != 0;
}
