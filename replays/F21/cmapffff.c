/* F21 replay: a format 4 cmap whose LAST segment is a real range ending at U+FFFF (the format only requires that the last segment
   ends there), and a format 12 cmap whose last group ends at U+10FFFF.  gr_face_is_char_supported must be the same with and without
   gr_face_cacheCmap.  Serves the tables of a real font through gr_face_ops, replacing only 'cmap'. */
#include <graphite2/Segment.h>
#include <stdio.h>
#include <stdlib.h>
#include <string.h>
static unsigned char *font; static long flen;
static unsigned be16(const unsigned char*p){return p[0]<<8|p[1];} static unsigned be32(const unsigned char*p){return (unsigned)p[0]<<24|p[1]<<16|p[2]<<8|p[3];}
static unsigned char cmap[160]; static size_t cmaplen;
static void w16(unsigned char*p,unsigned v){p[0]=v>>8;p[1]=v;} static void w32(unsigned char*p,unsigned v){p[0]=v>>24;p[1]=v>>16;p[2]=v>>8;p[3]=v;}
static void build(void){ /* header + (3,1) -> format 4 {[0x41,0x42]->5.., [0xFFFC,0xFFFF]->30..}; (3,10) -> format 12 {[0x10FFFE,0x10FFFF]->40..} */
  unsigned char*p=cmap; w16(p,0); w16(p+2,2); w16(p+4,3); w16(p+6,1); w32(p+8,20); w16(p+12,3); w16(p+14,10); w32(p+16,20+32); p+=20;
  unsigned n=2; w16(p,4); w16(p+2,16+8*n); w16(p+4,0); w16(p+6,2*n); w16(p+8,4); w16(p+10,1); w16(p+12,0); p+=14;
  w16(p,0x42); w16(p+2,0xFFFF); p+=4; w16(p,0); p+=2; w16(p,0x41); w16(p+2,0xFFFC); p+=4; w16(p,(5-0x41)&0xFFFF); w16(p+2,(30-0xFFFC)&0xFFFF); p+=4; w16(p,0); w16(p+2,0); p+=4;
  /* format 12 at offset 52 */
  w16(p,12); w16(p+2,0); w32(p+4,16+12); w32(p+8,0); w32(p+12,1); w32(p+16,0x10FFFE); w32(p+20,0x10FFFF); w32(p+24,40); p+=28; cmaplen=p-cmap; }
static const void* get(const void*h,unsigned tag,size_t*len){ (void)h; if(tag==0x636d6170){*len=cmaplen;return cmap;}
  unsigned n=be16(font+4); for(unsigned i=0;i<n;i++){const unsigned char*r=font+12+16*i; if(be32(r)==tag){*len=be32(r+12);return font+be32(r+8);}} *len=0; return 0;}
int main(int argc,char**argv){ FILE*f=fopen(argv[1],"rb"); fseek(f,0,SEEK_END); flen=ftell(f); rewind(f); font=malloc(flen); if(fread(font,1,flen,f)!=(size_t)flen)return 2; build();
  gr_face_ops ops={sizeof(gr_face_ops),get,0}; int bad=0;
  gr_face*d=gr_make_face_with_ops(0,&ops,gr_face_default), *c=gr_make_face_with_ops(0,&ops,gr_face_cacheCmap); if(!d||!c){printf("face not loaded\n");return 2;}
  unsigned probe[]={0x41,0x42,0xFFFB,0xFFFC,0xFFFD,0xFFFE,0xFFFF,0x10000,0x10FFFD,0x10FFFE,0x10FFFF};
  for(unsigned k=0;k<sizeof probe/sizeof*probe;k++){unsigned u=probe[k]; int a=gr_face_is_char_supported(d,u,0),b=gr_face_is_char_supported(c,u,0); printf("U+%04X direct=%d cached=%d%s\n",u,a,b,a!=b?"   <-- differ":""); bad|=a!=b;}
  printf(bad?"CACHED AND DIRECT CMAP DISAGREE\n":"agree\n"); return bad; }
