#!/bin/sh
# usage: run.sh [<graphite source tree>]   exit 0 = cached and direct cmap agree on U+FFFF / U+10FFFF
set -e
SRC=${1:-/repo}
H=$(cd "$(dirname "$0")" && pwd)
B=$(mktemp -d /tmp/f21-XXXXXX)
cmake -G Ninja -S "$SRC" -B "$B/build" -DCMAKE_BUILD_TYPE=RelWithDebInfo >/dev/null
cmake --build "$B/build" -j8 --target graphite2 >/dev/null
gcc -O1 -g -I"$SRC/include" "$H/cmapffff.c" -o "$B/t" -L"$B/build/src" -lgraphite2 -Wl,-rpath,"$B/build/src"
rc=0
"$B/t" "$SRC/tests/fonts/Padauk.ttf" || rc=$?
rm -rf "$B"
exit $rc
