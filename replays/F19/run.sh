#!/bin/sh
# usage: run.sh [<graphite source tree>]   exit 0 = attachment chains hold only slots of the segment
set -e
SRC=${1:-/repo}
H=$(cd "$(dirname "$0")" && pwd)
B=$(mktemp -d /tmp/f19-XXXXXX)
cmake -G Ninja -S "$SRC" -B "$B/build" -DCMAKE_BUILD_TYPE=RelWithDebInfo >/dev/null
cmake --build "$B/build" -j8 --target graphite2 >/dev/null
gcc -O1 -g -I"$SRC/include" "$H/forest.c" -o "$B/forest" -L"$B/build/src" -lgraphite2 -Wl,-rpath,"$B/build/src"
rc=0
echo "== F19: B { assoc; delete }, next slot reads @B"
python3 "$H/font19.py" "$B/f19.ttf"; "$B/forest" "$B/f19.ttf" || rc=$?
echo "== control: plain delete"
F19_ASSOC=0 python3 "$H/font19.py" "$B/f19c.ttf"; "$B/forest" "$B/f19c.ttf" | tail -1
rm -rf "$B"
exit $rc
