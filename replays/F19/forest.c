/* F19: every member of a slot's attachment chain is a slot of the segment (C04) */
#include <graphite2/Font.h>
#include <graphite2/Segment.h>
#include <stdio.h>
#include <string.h>
int main(int argc, char **argv)
{
    gr_face *face = gr_make_file_face(argv[1], 0);
    if (!face) { printf("cannot load font\n"); return 2; }
    gr_segment *seg = gr_make_seg(NULL, face, 0, NULL, gr_utf8, "abc", 3, 0);
    if (!seg) { printf("no segment\n"); return 2; }
    const gr_slot *in[16]; int n = 0, bad = 0;
    for (const gr_slot *s = gr_seg_first_slot(seg); s && n < 16; s = gr_slot_next_in_segment(s)) in[n++] = s;
    printf("%d slots (gr_seg_n_slots %d)\n", n, gr_seg_n_slots(seg));
    for (int i = 0; i < n; ++i)
        for (const gr_slot *c = gr_slot_first_attachment(in[i]); c; c = gr_slot_next_sibling_attachment(c))
        {
            int k; for (k = 0; k < n && in[k] != c; ++k) ;
            if (k == n) { printf("slot %d (gid %u): its attachment chain holds %p (gid %u), which is not a slot of the segment\n", i, gr_slot_gid(in[i]), (void*)c, gr_slot_gid(c)); ++bad; break; }
        }
    gr_seg_destroy(seg); gr_face_destroy(face);
    printf(bad ? "FOREST BROKEN\n" : "ok\n");
    return bad ? 1 : 0;
}
