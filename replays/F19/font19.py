#!/usr/bin/env python3
# F19 font: pass 1 attaches B to A; pass 2 deletes B with an association set on it first, and the following slot reads one of its attributes.
import sys, os
sys.path.insert(0, os.path.dirname(os.path.abspath(__file__)))
from grfont import *
adv = [500, 600, 300, 450]
A, B, C = 1, 2, 3
cmap = {ord('a'): A, ord('b'): B, ord('c'): C}
p1 = Pass([Rule(0, [{A}, {B}, {C}], [NEXT, PUSH_BYTE, s8(-1), ATTR_SET_SLOT, SLAT_ATTTO, NEXT, NEXT, RET_ZERO])])
body = [ASSOC, 1, 0] if os.environ.get('F19_ASSOC', '1') == '1' else []
p2 = Pass([Rule(0, [{A}, {B}, {C}], [NEXT] + body + [DELETE, NEXT, PUSH_SLOT_ATTR, SLAT_ADVX, s8(-1), ATTR_SET, SLAT_ADVX, NEXT, RET_ZERO])])
build_font(sys.argv[1], adv, cmap, [p1, p2], [], [], spass=0, ppass=2)
