import struct,sys
from fonttool import *
sc,t=read_font(sys.argv[1])
ver,flags,nattr,offs,tail=parse_gloc(t[b'Gloc'])
glat=t[b'Glat']
ents=glat_entries(glat,offs)
out=glat[:offs[0]]
no=[]
for e in ents:
    no.append(len(out))
    bm=struct.unpack('>H',e[:2])[0]; c=bin(bm).count('1')
    out+=struct.pack('>H',0)+e[2:6]+e[6+8*c:]
no.append(len(out))
t[b'Glat']=out; t[b'Gloc']=build_gloc(ver,flags,nattr,no,tail)
write_font(sys.argv[2],sc,t)
