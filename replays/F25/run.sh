#!/bin/sh
# usage: run.sh [<graphite source tree>]   exit 0 = a lazily loading face and a gr_face_preloadGlyphs face of the same font give identical segments
# font: tests/fonts/Awami_test.ttf with every glyph's sub-boxes removed (mk_nosubs.py): bounding octaboxes, no sub-boxes
set -e
SRC=${1:-/repo}
H=$(cd "$(dirname "$0")" && pwd)
B=$(mktemp -d /tmp/f25-XXXXXX)
cmake -G Ninja -S "$SRC" -B "$B/build" -DCMAKE_BUILD_TYPE=RelWithDebInfo >/dev/null
cmake --build "$B/build" -j8 --target graphite2 >/dev/null
gcc -O1 -g -I"$SRC/include" "$H/cmp.c" -o "$B/cmp" -L"$B/build/src" -lgraphite2 -Wl,-rpath,"$B/build/src"
(cd "$H" && python3 mk_nosubs.py "$SRC/tests/fonts/Awami_test.ttf" "$B/nosubs.ttf")
rc=0
"$B/cmp" "$B/nosubs.ttf" "$SRC/tests/texts/awami_tests.txt" || rc=$?
rm -rf "$B"
exit $rc
