#!/usr/bin/env python3
"""Small sfnt helpers for the C10 demos (no fontTools available)."""
import struct, sys

def read_font(path):
    d = open(path, 'rb').read()
    n = struct.unpack('>H', d[4:6])[0]
    tabs = {}
    order = []
    for i in range(n):
        tag, cs, off, ln = struct.unpack('>4sIII', d[12+16*i:28+16*i])
        tabs[tag] = d[off:off+ln]
        order.append(tag)
    return d[:4], tabs

def checksum(b):
    b = b + b'\0' * (-len(b) % 4)
    return sum(struct.unpack('>%dI' % (len(b)//4), b)) & 0xFFFFFFFF

def write_font(path, scaler, tabs):
    tags = sorted(tabs)
    n = len(tags)
    es = 0
    while (1 << (es+1)) <= n: es += 1
    sr = (1 << es) * 16
    hdr = scaler + struct.pack('>HHHH', n, sr, es, n*16 - sr)
    off = 12 + 16*n
    dirs = b''
    body = b''
    for t in tags:
        b = tabs[t]
        dirs += struct.pack('>4sIII', t, checksum(b), off, len(b))
        pad = b + b'\0' * (-len(b) % 4)
        body += pad
        off += len(pad)
    open(path, 'wb').write(hdr + dirs + body)

def parse_gloc(gloc):
    ver, flags, nattr = struct.unpack('>IHH', gloc[:8])
    lf = flags & 1
    w = 4 if lf else 2
    n = (len(gloc) - 8 - (2*nattr if flags & 2 else 0)) // w - 1
    offs = list(struct.unpack('>%d%s' % (n+1, 'I' if lf else 'H'), gloc[8:8+(n+1)*w]))
    tail = gloc[8+(n+1)*w:]
    return ver, flags, nattr, offs, tail

def build_gloc(ver, flags, nattr, offs, tail):
    flags |= 1      # long format
    return struct.pack('>IHH', ver, flags, nattr) + struct.pack('>%dI' % len(offs), *offs) + tail

def glat_entries(glat, offs):
    return [glat[offs[i]:offs[i+1]] for i in range(len(offs)-1)]
