#include <graphite2/Segment.h>
#include <graphite2/Font.h>
#include <stdio.h>
#include <string.h>
#include <stdlib.h>
/* usage: cmp font textfile : shape every line (rtl) with a lazily loaded face and with gr_face_preloadGlyphs; the segments must be identical */
static int dump(gr_face *face, const char *line, float *out, int max) {
    gr_segment *seg = gr_make_seg(NULL, face, 0, NULL, gr_utf8, line, strlen(line), 1);
    int n = 0;
    if (!seg) return -1;
    for (const gr_slot *s = gr_seg_first_slot(seg); s && n + 3 <= max; s = gr_slot_next_in_segment(s)) {
        out[n++] = gr_slot_gid(s); out[n++] = gr_slot_origin_X(s); out[n++] = gr_slot_origin_Y(s);
    }
    gr_seg_destroy(seg);
    return n;
}
int main(int argc, char **argv) {
    gr_face *lazy = gr_make_file_face(argv[1], gr_face_default);
    gr_face *pre = gr_make_file_face(argv[1], gr_face_preloadGlyphs);
    if (!lazy || !pre) { printf("face: lazy %p preload %p\n", (void*)lazy, (void*)pre); return 2; }
    FILE *f = fopen(argv[2], "r"); char line[4096]; int ln = 0, diff = 0;
    static float a[6000], b[6000];
    while (fgets(line, sizeof line, f) && ln < 60) {
        ++ln; line[strcspn(line, "\n")] = 0;
        int na = dump(lazy, line, a, 6000), nb = dump(pre, line, b, 6000);
        if (na != nb || memcmp(a, b, na * sizeof(float))) {
            if (!diff) { int k = 0; while (k < na && k < nb && a[k] == b[k]) ++k;
                printf("line %d: lazy and preloaded faces differ (first at value %d: %.2f vs %.2f)\n", ln, k, k < na ? a[k] : -1, k < nb ? b[k] : -1); }
            ++diff;
        }
    }
    printf("%d of %d lines differ between gr_face_default and gr_face_preloadGlyphs\n", diff, ln);
    return diff ? 1 : 0;
}
