#!/bin/sh
# usage: _mut/build_demo.sh demoN   (run from /tmp/mut4/C04)
# Compiles the *current* library sources (src/*.cpp) together with _mut/demoN.cpp
# into _mut/obj_demoN/demoN.  Internal headers are used, hence -DGRAPHITE2_STATIC.
set -e
name=$1
out=_mut/obj_$name
rm -rf "$out"; mkdir -p "$out"
CXX=${CXX:-g++}
FLAGS="-std=c++11 -O1 -g -fno-rtti -fno-exceptions -DGRAPHITE2_STATIC -Iinclude -Isrc -w $EXTRA_FLAGS"
srcs=$(ls src/*.cpp | grep -v call_machine.cpp)
echo "$srcs" | xargs -P3 -I{} sh -c "$CXX $FLAGS -c {} -o $out/\$(basename {} .cpp).o"
$CXX $FLAGS _mut/$name.cpp $out/*.o -o $out/$name
