// NOT a deliverable: two forest violations that reproduce on the UNMODIFIED tree
// (found while looking for mutation sites).  usage: probe 1 | probe 2
//   1: put_copy from a temp copy whose recorded parent is the target slot itself
//      -> the target becomes its own parent (attached_to chain never ends)
//   2: a slot that was temp-copied and then deleted in the same rule is no longer
//      in the SlotMap, SlotMap::collectGarbage never frees it, so it stays in its
//      parent's attachment chain although it has left the slot stream
// build like the demos (see ../build_demo.sh) with this file in place of demoN.cpp.
#include "../harness.h"
#define V(a) std::vector<byte>(a, a + sizeof a)
int main(int argc, char **argv)
{
    const char *font = "tests/fonts/Padauk.ttf";
    const byte ATT = byte(gr_slatAttTo);
    int which = atoi(argv[1]);
    Shaper sh(font, "abcdef");
    if (which == 1)
    {   // K=slot0 attached to J=slot1; then rule: K: put_glyph; attach to L(slot2); J: put_copy -1
        const byte r1[] = { PUSH_BYTE, 1, ATTR_SET_SLOT, ATT, NEXT, NEXT, RET_ZERO };
        const byte r2[] = { PUT_GLYPH, 0, 0, PUSH_BYTE, 2, ATTR_SET_SLOT, ATT, NEXT,
                            PUT_COPY, byte(-1), NEXT, NEXT, RET_ZERO };
        if (!sh.rule(0, 2, 0, V(r1), PASS_TYPE_SUBSTITUTE)) return 2;
        if (!sh.rule(0, 3, 0, V(r2), PASS_TYPE_SUBSTITUTE)) return 2;
    }
    else if (which == 2)
    {   // slot1 attached to slot0; rule on 1..2: slot1: put_glyph; delete ; slot2: push_slot_attr advx -1 ; pop via attr_set
        const byte r1[] = { NEXT, PUSH_BYTE, byte(-1), ATTR_SET_SLOT, ATT, NEXT, RET_ZERO };
        const byte r2[] = { PUT_GLYPH, 0, 0, DELETE, NEXT,
                            PUSH_SLOT_ATTR, byte(gr_slatAdvX), byte(-1), ATTR_SET, byte(gr_slatAdvX), NEXT, RET_ZERO };
        if (!sh.rule(0, 2, 0, V(r1), PASS_TYPE_SUBSTITUTE)) return 2;
        if (!sh.rule(1, 2, 0, V(r2), PASS_TYPE_SUBSTITUTE)) return 2;
    }
    gr_segment *seg = sh.finish();
    dump(seg);
    int bad = check_forest(seg);
    printf(bad ? "BROKEN %d\n" : "holds\n", bad);
    return bad != 0;
}
