// Shared helper for the C04 demos.
//
// It builds a real Segment exactly the way gr_make_seg() does (new Segment,
// read_text, runGraphite), then lets a demo run hand assembled rule *actions*
// through the very same machinery a font rule goes through:
//   vm::Machine::Code (the loader/validator used for font bytecode)
//   -> Code::run -> opcodes.h -> Slot::setAttr / Segment::newSlot ...
//   -> SlotMap::collectGarbage -> Segment::freeSlot
// (this mirrors Pass::runFSM + Pass::doAction + Pass::findNDoRule), and finally
// Segment::finalise(), which is what gr_make_seg() does before returning.
// The forest property is then checked through the public gr_slot_* API only.
#pragma once
#include <cstdio>
#include <cstdlib>
#include <cstring>
#include <set>
#include <vector>
#include <graphite2/Segment.h>
#include <graphite2/Font.h>
#include "inc/Main.h"
#include "inc/Face.h"
#include "inc/FeatureVal.h"
#include "inc/Segment.h"
#include "inc/Slot.h"
#include "inc/Silf.h"
#include "inc/Rule.h"
#include "inc/Code.h"
#include "inc/Machine.h"

using namespace graphite2;
using namespace graphite2::vm;

struct Shaper
{
    gr_face  *face;
    Segment  *seg;
    SlotMap  *smap;     // one map for the whole "pass", like Silf::runGraphite
    Machine  *mach;

    Shaper(const char *font, const char *text, int dir = 0) : face(0), seg(0), smap(0), mach(0)
    {
        face = gr_make_file_face(font, gr_face_default);
        if (!face) { fprintf(stderr, "cannot load %s\n", font); exit(2); }
        const size_t n = strlen(text);
        FeatureVal *feats = face->theSill().cloneFeatures(0);
        seg = new Segment(n, face, 0, dir);
        if (!seg->read_text(face, feats, gr_utf8, text, n) || !seg->runGraphite())
        { fprintf(stderr, "shaping failed\n"); exit(2); }
        delete feats;
        smap = new SlotMap(*seg, seg->silf()->dir(), seg->slotCount() * MAX_SEG_GROWTH_FACTOR);
        mach = new Machine(*smap);
    }
    ~Shaper() { delete mach; delete smap; delete seg; gr_face_destroy(face); }

    Slot *nth(int i) const
    {
        Slot *s = seg->first();
        while (s && i-- > 0) s = s->next();
        return s;
    }

    // Run one rule action.  The rule matches `len` slots starting at slot
    // number `start` (`pre` of them are pre-context).  Returns false when the
    // code does not load or the machine does not finish (=> gr_make_seg would
    // have returned NULL, no segment to look at).
    bool rule(int start, int len, int pre, const std::vector<byte> &bc, passtype pt)
    {
        Slot *s = nth(start);
        if (!s) { fprintf(stderr, "rule: no slot %d\n", start); exit(2); }
        smap->reset(*s, pre);
        for (int i = 0; i < len && s; ++i, s = s->next())
            smap->pushSlot(s);
        smap->pushSlot(s);                  // the look-ahead slot runFSM adds
        Machine::Code code(false, &bc[0], &bc[0] + bc.size(), pre, len, *seg->silf(), *face, pt);
        if (!code) { fprintf(stderr, "rule: bytecode rejected by loader (status %d)\n", int(code.status())); return false; }
        slotref *map = &(*smap)[smap->context()];
        smap->highpassed(false);
        code.run(*mach, map);
        if (mach->status() != Machine::finished)
        { fprintf(stderr, "rule: machine status %d\n", int(mach->status())); return false; }
        Slot *out = *map;
        if (code.deletes()) smap->collectGarbage(out);
        return true;
    }

    gr_segment *finish()                    // what makeAndInitialize does last
    {
        seg->finalise(0, true);
        return static_cast<gr_segment *>(seg);
    }
};

// ---- the property, evaluated through the public API only -------------------
static int check_forest(gr_segment *seg, bool verbose = true)
{
    int bad = 0;
    std::vector<const gr_slot *> slots;
    std::set<const gr_slot *> own;
    for (const gr_slot *s = gr_seg_first_slot(seg); s; s = gr_slot_next_in_segment(s))
    {
        if (!own.insert(s).second || slots.size() > 100000) { printf("FAIL: slot stream loops\n"); return 1; }
        slots.push_back(s);
    }
    const size_t N = slots.size();
#define BAD(...) do { ++bad; if (verbose) { printf("FAIL: " __VA_ARGS__); printf("\n"); } } while (0)
    size_t nbases = 0;
    const gr_slot *firstbase = 0;
    for (size_t i = 0; i < N; ++i)
    {
        const gr_slot *s = slots[i];
        // 1. parent chain ends, stays inside the segment
        size_t steps = 0;
        for (const gr_slot *p = gr_slot_attached_to(s); p; p = gr_slot_attached_to(p))
        {
            if (!own.count(p)) { BAD("slot %zu: parent chain leaves the segment", i); break; }
            if (++steps > N)   { BAD("slot %zu: parent chain does not end (cycle)", i); break; }
        }
        const gr_slot *par = gr_slot_attached_to(s);
        if (!par) { ++nbases; if (!firstbase) firstbase = s; }
        // 2. a slot with a parent occurs exactly once in the parent's child chain
        if (par && own.count(par))
        {
            size_t occ = 0, n = 0;
            for (const gr_slot *c = gr_slot_first_attachment(par); c && n <= N + 1; c = gr_slot_next_sibling_attachment(c), ++n)
                if (c == s) ++occ;
            if (occ != 1) BAD("slot %zu has a parent but occurs %zu times in that parent's attachment chain", i, occ);
        }
        // 3. every member of s's child chain names s, is in the segment, chain is finite
        size_t n = 0;
        for (const gr_slot *c = gr_slot_first_attachment(s); c; c = gr_slot_next_sibling_attachment(c))
        {
            if (++n > N) { BAD("slot %zu: attachment chain does not end", i); break; }
            if (!own.count(c)) { BAD("slot %zu: attachment chain leaves the segment", i); break; }
            if (gr_slot_attached_to(c) != s) BAD("slot %zu: member of its attachment chain names another parent", i);
        }
    }
    // 4. bases form exactly one sibling chain holding each base once
    {
        std::set<const gr_slot *> heads;        // bases nobody points at
        std::set<const gr_slot *> pointed;
        for (size_t i = 0; i < N; ++i)
        {
            if (gr_slot_attached_to(slots[i])) continue;
            const gr_slot *nx = gr_slot_next_sibling_attachment(slots[i]);
            if (!nx) continue;
            if (!own.count(nx))                 BAD("base %zu: sibling leaves the segment", i);
            else if (gr_slot_attached_to(nx))   BAD("base %zu: base chain runs into an attached slot", i);
            else if (!pointed.insert(nx).second) BAD("base %zu: two bases share one successor", i);
        }
        size_t nheads = 0; const gr_slot *head = 0;
        for (size_t i = 0; i < N; ++i)
            if (!gr_slot_attached_to(slots[i]) && !pointed.count(slots[i])) { ++nheads; head = slots[i]; }
        if (nbases && nheads != 1) BAD("%zu base chains (heads) for %zu bases, expected one", nheads, nbases);
        if (head)
        {
            size_t n = 0; std::set<const gr_slot *> seen;
            for (const gr_slot *b = head; b && n <= N; b = gr_slot_next_sibling_attachment(b), ++n)
                if (!seen.insert(b).second) { BAD("base chain repeats a slot"); break; }
            if (seen.size() != nbases) BAD("base chain holds %zu slots, there are %zu bases", seen.size(), nbases);
        }
    }
#undef BAD
    return bad;
}

static void dump(gr_segment *seg)
{
    std::vector<const gr_slot *> slots;
    for (const gr_slot *s = gr_seg_first_slot(seg); s && slots.size() < 1000; s = gr_slot_next_in_segment(s))
        slots.push_back(s);
    for (size_t i = 0; i < slots.size(); ++i)
    {
        const gr_slot *s = slots[i];
        auto idx = [&](const gr_slot *p) -> long {
            if (!p) return -1;
            for (size_t k = 0; k < slots.size(); ++k) if (slots[k] == p) return long(k);
            return -99; };
        printf("  slot %zu gid %u parent %ld child %ld sibling %ld\n", i, gr_slot_gid(s),
               idx(gr_slot_attached_to(s)), idx(gr_slot_first_attachment(s)), idx(gr_slot_next_sibling_attachment(s)));
    }
}
