#!/bin/sh
# F17: a font whose first positioning pass is pass 0 AND whose bidi pass index is 0 (iSubst = iPos = iJust = iBidi = 0: only positioning
# passes, bidi re-ordering before the first of them) has every pass run twice by Face::runGraphite on the unchanged tree.
# F18: with iBidi = iPos + 1 the first positioning pass runs twice (once before, once after the characters are associated).
# usage: run.sh <graphite source tree>    exit 0 = each pass ran once
set -e
SRC=${1:-/repo}
H=$(cd "$(dirname "$0")" && pwd)
B=$(mktemp -d /tmp/f17-XXXXXX)
cmake -G Ninja -S "$SRC" -B "$B/build" -DCMAKE_BUILD_TYPE=RelWithDebInfo >/dev/null
cmake --build "$B/build" -j8 --target graphite2 >/dev/null
GR_IJUST=0 GR_IBIDI=0 python3 "$H/font17.py" "$B/f17.ttf"
g++ -std=c++11 -O1 -g -I"$SRC/include" "$H/passonce.cpp" -o "$B/passonce" -L"$B/build/src" -lgraphite2 -Wl,-rpath,"$B/build/src"
rc=0
echo "== F17: iPos = iJust = iBidi = 0"
"$B/passonce" "$B/f17.ttf" || rc=$?
echo "== F18: iPos = iJust = 1, iBidi = 2 (bidi step one pass after the first positioning pass)"
GR_IPOS=1 GR_IJUST=1 GR_IBIDI=2 python3 "$H/font17.py" "$B/f18.ttf"
"$B/passonce" "$B/f18.ttf" || rc=$?
echo "== control: no bidi pass"
python3 "$H/font17.py" "$B/f17b.ttf"     # control: same font with iJust = numPasses, no bidi pass
"$B/passonce" "$B/f17b.ttf" | tail -1
rm -rf "$B"
exit $rc
