// Demo 3: every pass of the font runs exactly once, in font order, over the output of the
// pass before it - also when the font has no substitution passes at all.
#include <graphite2/Font.h>
#include <graphite2/Segment.h>
#include <cstdio>
#include <cstring>
#include <cmath>

static int fails = 0;
#define CHECK(c, ...) do { if (!(c)) { ++fails; printf("FAIL: " __VA_ARGS__); printf("\n"); } } while (0)

int main(int argc, char **argv)
{
    if (argc < 2) return 2;
    gr_face *face = gr_make_file_face(argv[1], 0);
    if (!face) { printf("cannot load font\n"); return 2; }
    const char *text = "abc";
    gr_segment *seg = gr_make_seg(NULL, face, 0, NULL, gr_utf8, text, strlen(text), 0);
    if (!seg) { printf("no segment\n"); return 2; }
    const gr_slot *s[8]; int n = 0;
    for (const gr_slot *p = gr_seg_first_slot(seg); p && n < 8; p = gr_slot_next_in_segment(p)) s[n++] = p;
    for (int i = 0; i < n; ++i)
        printf("slot %d gid %u user0 %d adv %d shift (%d,%d) origin (%g,%g)\n", i, gr_slot_gid(s[i]),
               gr_slot_attr(s[i], seg, gr_slatUserDefn, 0), gr_slot_attr(s[i], seg, gr_slatAdvX, 0),
               gr_slot_attr(s[i], seg, gr_slatShiftX, 0), gr_slot_attr(s[i], seg, gr_slatShiftY, 0),
               gr_slot_origin_X(s[i]), gr_slot_origin_Y(s[i]));

    // Reference semantics: a b c -> A B C.
    //  pass 1: A has user0 == 0, so rule 0 fires: user0 = 1, advance 500, shift.y 10.  (rule 1 needs user0 == 1)
    //  pass 2: B -> C with shift.x 25 ; the original C gets shift.x 40.
    //  result: A(user0 1, adv 500) at (0,10); C(adv 450) at (500+25,0); C at (950+40,0); total 1400.
    CHECK(n == 3, "expected 3 slots, got %d", n);
    if (n == 3)
    {
        CHECK(gr_slot_gid(s[0]) == 1 && gr_slot_gid(s[1]) == 3 && gr_slot_gid(s[2]) == 3, "glyph sequence is not 1 3 3");
        CHECK(gr_slot_attr(s[0], seg, gr_slatUserDefn, 0) == 1, "slot 0 user0 = %d, expected 1", gr_slot_attr(s[0], seg, gr_slatUserDefn, 0));
        CHECK(gr_slot_attr(s[0], seg, gr_slatAdvX, 0) == 500, "slot 0 advance = %d, expected 500", gr_slot_attr(s[0], seg, gr_slatAdvX, 0));
        CHECK(gr_slot_attr(s[0], seg, gr_slatShiftY, 0) == 10, "slot 0 shift.y = %d, expected 10", gr_slot_attr(s[0], seg, gr_slatShiftY, 0));
        CHECK(gr_slot_attr(s[1], seg, gr_slatShiftX, 0) == 25, "slot 1 shift.x = %d, expected 25", gr_slot_attr(s[1], seg, gr_slatShiftX, 0));
        CHECK(gr_slot_attr(s[2], seg, gr_slatShiftX, 0) == 40, "slot 2 shift.x = %d, expected 40", gr_slot_attr(s[2], seg, gr_slatShiftX, 0));
        CHECK(fabs(gr_slot_origin_X(s[0]) - 0) < 0.01 && fabs(gr_slot_origin_Y(s[0]) - 10) < 0.01, "slot 0 at (%g,%g), expected (0,10)", gr_slot_origin_X(s[0]), gr_slot_origin_Y(s[0]));
        CHECK(fabs(gr_slot_origin_X(s[1]) - 525) < 0.01, "slot 1 at x=%g, expected 525", gr_slot_origin_X(s[1]));
        CHECK(fabs(gr_slot_origin_X(s[2]) - 990) < 0.01, "slot 2 at x=%g, expected 990", gr_slot_origin_X(s[2]));
        CHECK(fabs(gr_seg_advance_X(seg) - 1400) < 0.01, "segment advance %g, expected 1400", gr_seg_advance_X(seg));
    }
    gr_seg_destroy(seg);
    gr_face_destroy(face);
    printf(fails ? "PROPERTY BROKEN\n" : "ok\n");
    return fails ? 1 : 0;
}
