#!/usr/bin/env python3
# Font for demo 3: a font whose passes are all *positioning* passes (no substitution pass at
# all).  Pass 1 is a little state machine on user attribute 0 and pass 2 moves glyphs along a
# chain, so running the pass list a second time is visible in the output.
import sys, os
sys.path.insert(0, os.path.dirname(os.path.abspath(__file__)))
from grfont import *

# gid: 0 .notdef, 1 A, 2 B, 3 C
adv = [500, 600, 300, 450]
A, B, C = 1, 2, 3
cmap = {ord('a'): A, ord('b'): B, ord('c'): C}
linear = [[B], [C]]               # class 0, class 1

user0_is = lambda v: [PUSH_ISLOT_ATTR, SLAT_USER, 0, 0, PUSH_BYTE, v, EQUAL, POP_RET]
# pass 1:  A {user0 == 0} > A {user0 = 1; advance.x = 500; shift.y = 10}
#          A {user0 == 1} > A {user0 = 2; advance.x = 900; shift.y = 70}
p1 = Pass([
    Rule(0, [{A}], [PUSH_BYTE, 1, IATTR_SET, SLAT_USER, 0, PUSH_SHORT, *be16(500), ATTR_SET, SLAT_ADVX,
                    PUSH_BYTE, 10, ATTR_SET, SLAT_SHIFTY, NEXT, RET_ZERO], user0_is(0)),
    Rule(0, [{A}], [PUSH_BYTE, 2, IATTR_SET, SLAT_USER, 0, PUSH_SHORT, *be16(900), ATTR_SET, SLAT_ADVX,
                    PUSH_BYTE, 70, ATTR_SET, SLAT_SHIFTY, NEXT, RET_ZERO], user0_is(1)),
])
# pass 2:  B > C {shift.x = 25}
p2 = Pass([Rule(0, [{B}], [PUT_GLYPH, 0, 1, PUSH_BYTE, 25, ATTR_SET, SLAT_SHIFTX, NEXT, RET_ZERO]),
           Rule(0, [{C}], [PUSH_BYTE, 40, ATTR_SET, SLAT_SHIFTX, NEXT, RET_ZERO])])
build_font(sys.argv[1], adv, cmap, [p1, p2], linear, [], spass=0, ppass=int(os.environ.get('GR_IPOS', 0)))
