// WIT (C16.1) positive twin: moving a Face::Table compiles (this is how Loader / Face store them).
#include <utility>
#include "inc/Face.h"
using namespace graphite2;
void witness_move(const Face & f)
{
    Face::Table a(f, TtfUtil::Tag::Silf);
    Face::Table b(std::move(a));
    Face::Table c;
    c = std::move(b);
}
