// WIT (C16.1) negative witness: Face::Table must not be copyable (a copy would release the
// borrowed table twice).  Each of the two marked statements must be rejected by the compiler.
#include "inc/Face.h"
using namespace graphite2;
void witness_copy_construct(const Face & f)
{
    Face::Table a(f, TtfUtil::Tag::Silf);
    Face::Table b(a);              // WITNESS-1: copy construction
    (void)b;
}
void witness_copy_assign(const Face & f)
{
    Face::Table a(f, TtfUtil::Tag::Silf), b;
    b = a;                         // WITNESS-2: copy assignment
}
